(** * AddrMonitor: the monitor [chk_C08] (the one the checks run on the implementation's traces)
    accepts the model's own trace of every history of distinct children (C08)

    The monitors are the search for a failing input, not what the theorems are about; this file
    ties one of them to a theorem: what [chk_C08] demands of a trace — every poll and drop of a
    child at one address, no vtable access to a released block — is exactly what
    [log_addresses_stable] and the world invariant give for the model. *)
From FB Require Import Base Syntax World SlotMap Fub Unbounded Ordered Adapters Step Tactics SlotMapProofs WorldProofs FubProofs
  UnboundedProofs OrderedProofs AdaptersProofs StepProofs Reach LedgerProofs AddrHistory AddrEvents AddrEventsHist Monitors.

Definition pair_ev (e : event) : list (N * addr) :=
  match e with
  | ECPoll c _ _ a => [(c, a)]
  | ECDrop c (Some a) => [(c, a)]
  | _ => []
  end.
Definition pairs (l : list event) : list (N * addr) := flat_map pair_ev l.
Definition functional (L : list (N * addr)) : Prop := forall c a a', In (c, a) L -> In (c, a') L -> a = a'.

Lemma functional_incl L L' : incl L' L -> functional L -> functional L'.
Proof. intros Hi F c a a' H1 H2. eapply F; eauto. Qed.

Lemma lookupN_In {A} c (l : list (N * A)) v : lookupN c l = Some v -> In (c, v) l.
Proof.
  induction l as [|[c' v'] l IH]; simpl; [discriminate|].
  destruct (N.eqb_spec c c') as [->|Hne]; intros H; [inversion H; subst; auto|auto].
Qed.

Lemma addr_eqb_refl a : addr_eqb a a = true.
Proof. unfold addr_eqb. rewrite !Nat.eqb_refl. reflexivity. Qed.

(** one op's events *)
Lemma chk_evs_ok evs : forall seen,
  (forall e, In e evs -> e <> EVtBad) -> functional (seen ++ pairs evs) ->
  exists seen', chk_C08_evs seen evs = (true, seen') /\ incl seen' (seen ++ pairs evs).
Proof.
  induction evs as [|e evs IH]; intros seen Hb Hf; cbn [chk_C08_evs].
  - exists seen. split; auto. intros x Hx. apply in_or_app; auto.
  - assert (Hb' : forall e0, In e0 evs -> e0 <> EVtBad) by (intros e0 H0; apply Hb; right; auto).
    assert (Hskip : pair_ev e = [] -> exists seen', chk_C08_evs seen evs = (true, seen') /\ incl seen' (seen ++ pairs (e :: evs))).
    { intros Hp. unfold pairs in *. simpl in *. rewrite Hp in *. simpl in *. apply IH; auto. }
    assert (Hstep : forall c a, pair_ev e = [(c, a)] ->
              exists seen', (match lookupN c seen with
                             | Some a' => if addr_eqb a a' then chk_C08_evs seen evs else (false, seen)
                             | None => chk_C08_evs ((c, a) :: seen) evs
                             end) = (true, seen') /\ incl seen' (seen ++ pairs (e :: evs))).
    { intros c a Hp. unfold pairs in Hf |- *. simpl in Hf |- *. rewrite Hp in Hf |- *. simpl in Hf |- *.
      destruct (lookupN c seen) as [a'|] eqn:Hl.
      - assert (a = a').
        { apply (Hf c); apply in_or_app; [right; left; auto|left; apply lookupN_In; auto]. }
        subst a'. rewrite addr_eqb_refl.
        destruct (IH seen Hb') as (s' & E & I).
        { eapply functional_incl; [|exact Hf]. intros x Hx. apply in_app_or in Hx as [Hx|Hx]; apply in_or_app; auto. right; right; auto. }
        exists s'. split; auto. intros x Hx. apply I in Hx. apply in_app_or in Hx as [Hx|Hx]; apply in_or_app; auto. right; right; auto.
      - destruct (IH ((c, a) :: seen) Hb') as (s' & E & I).
        { eapply functional_incl; [|exact Hf]. intros x Hx. simpl in Hx. destruct Hx as [<-|Hx]; [apply in_or_app; right; left; auto|].
          apply in_app_or in Hx as [Hx|Hx]; apply in_or_app; auto. right; right; auto. }
        exists s'. split; auto. intros x Hx. apply I in Hx. simpl in Hx. destruct Hx as [<-|Hx]; [apply in_or_app; right; left; auto|].
        apply in_app_or in Hx as [Hx|Hx]; apply in_or_app; auto. right; right; auto. }
    destruct e; try (apply Hskip; reflexivity);
      try (exfalso; apply (Hb EVtBad); [left; reflexivity|reflexivity]);
      try (eapply Hstep; reflexivity).
    match goal with x : option addr |- _ => destruct x end; [eapply Hstep; reflexivity|apply Hskip; reflexivity].
Qed.

(** a whole trace *)
Lemma chk_tr_ok (t : trace) : forall seen,
  (forall o evs e, In (o, evs) t -> In e evs -> e <> EVtBad) ->
  functional (seen ++ flat_map (fun x => pairs (snd x)) t) ->
  chk_C08_tr seen t = true.
Proof.
  induction t as [|[o evs] t IH]; intros seen Hb Hf; cbn [chk_C08_tr]; auto.
  destruct (chk_evs_ok evs seen) as (s' & E & I).
  { intros e He. eapply Hb; [left; reflexivity|exact He]. }
  { eapply functional_incl; [|exact Hf]. simpl. intros x Hx. apply in_app_or in Hx as [Hx|Hx]; apply in_or_app; auto.
    right. apply in_or_app; auto. }
  rewrite E. simpl. apply IH.
  - intros o0 evs0 e H1 H2. eapply Hb; [right; exact H1|exact H2].
  - eapply functional_incl; [|exact Hf]. simpl. intros x Hx. apply in_app_or in Hx as [Hx|Hx].
    + apply I in Hx. apply in_app_or in Hx as [Hx|Hx]; apply in_or_app; auto. right. apply in_or_app; auto.
    + apply in_or_app; right. apply in_or_app; auto.
Qed.

Section WithParams.
Variable P : params.
Hypothesis HP : params_ok P.

(** the trace of the model: what the driver prints for a history *)
Definition trace_from (s : state) (ops : list op) : trace := combine ops (run P s ops).
Definition trace_of (ops : list op) : trace := trace_from init_state ops.

Lemma pairs_aevs l c a : In (c, a) (pairs l) -> In (c, fst a, snd a) (aevs l).
Proof.
  unfold pairs, aevs. intros H. apply in_flat_map in H as (e & He & H). apply in_flat_map. exists e. split; auto.
  destruct e; simpl in *; try contradiction.
  - destruct H as [E|[]]. inversion E; subst. left; auto.
  - destruct a0 as [a0|]; simpl in *; [|contradiction]. destruct H as [E|[]]. inversion E; subst. left; auto.
Qed.

Lemma pairs_rev l x : In x (pairs (rev l)) -> In x (pairs l).
Proof. unfold pairs. intros H. apply in_flat_map in H as (e & He & H). apply in_flat_map. exists e. split; auto. apply in_rev; auto. Qed.

Lemma pairs_finish w x : In x (pairs (finish_op w)) -> In x (pairs (log w)).
Proof.
  unfold finish_op. intros H. apply pairs_rev in H. destruct (nalloc w); auto.
Qed.

Lemma trace_pairs s ops c a :
  In (c, a) (flat_map (fun x => pairs (snd x)) (trace_from s ops)) -> In (c, fst a, snd a) (aevs_in P s ops).
Proof.
  revert s. induction ops as [|o ops IH]; intros s; unfold trace_from, aevs_in in *; simpl; [auto|].
  unfold step_op at 1. destruct (is_dead (st_coll s)) eqn:Hd.
  - simpl. intros H. assert (Hfix : fst (step_op P s o) = s) by (unfold step_op; rewrite Hd; reflexivity).
    rewrite Hfix. apply IH. exact H.
  - destruct (step_core P (st_coll s) o (begin_op (op_inj o) (st_world s))) as [k' w'] eqn:Hs. simpl.
    assert (Hst : fst (step_op P s o) = {| st_coll := k'; st_world := w' |}) by (unfold step_op; rewrite Hd, Hs; reflexivity).
    rewrite Hst. simpl. intros H. apply in_app_or in H as [H|H]; apply in_or_app.
    + left. apply pairs_finish in H. apply pairs_aevs. exact H.
    + right. apply IH. exact H.
Qed.

Lemma trace_nobad s ops o evs e : Inv s -> In (o, evs) (trace_from s ops) -> In e evs -> e <> EVtBad.
Proof.
  revert s. induction ops as [|o0 ops IH]; intros s Hs; unfold trace_from in *; simpl; [contradiction|].
  pose proof (step_inv HP o0 Hs) as Hs'. unfold step_op in *. destruct (is_dead (st_coll s)) eqn:Hd.
  - simpl in *. intros [E|Hin] He; [inversion E; subst; contradiction|]. eapply IH; eauto.
  - destruct (step_core P (st_coll s) o0 (begin_op (op_inj o0) (st_world s))) as [k' w'] eqn:Hc. simpl in *.
    intros [E|Hin] He; [|eapply IH; eauto].
    inversion E; subst. destruct Hs' as [Hw _]. simpl in Hw. intros ->.
    unfold finish_op in He. apply in_rev in He. destruct (nalloc w'); [|destruct He as [He|He]; [discriminate|]];
      apply (wi_log Hw) in He; discriminate.
Qed.

Theorem monitor_C08_accepts_the_model ops :
  NoDup (taken_in P init_state ops ++ pulled_in P init_state ops) ->
  chk_C08 (trace_of ops) = true.
Proof.
  intros Hn. unfold chk_C08, trace_of. apply chk_tr_ok.
  - intros o evs e H1 H2. eapply trace_nobad; eauto. apply Inv_init.
  - simpl. intros c a a' H1 H2. apply trace_pairs in H1. apply trace_pairs in H2.
    destruct (@log_addresses_stable P HP ops c (fst a) (snd a) (fst a') (snd a')) as [E1 E2]; auto.
    destruct a, a'. simpl in *. congruence.
Qed.

End WithParams.
