(** * LiveProofs: a finished child is never polled again and is released promptly (C05)

    [live m]: no child sitting in a slot has given its final answer ([cdone] is set by the
    poll in which a future answers Ready / a source answers None).  It holds between
    operations in every reachable state, because the call that observes a final answer
    removes the child (drops it in place) before it returns.  The ghost counter [gdone]
    counts polls of a child whose [cdone] is set: it never moves.  Stale wakers are covered:
    a popped slot is looked up in the slot map, a vacant slot is skipped, an occupied one
    holds a live child (possibly a new occupant). *)
From FB Require Import Base Syntax World SlotMap Fub Unbounded Ordered Adapters Step Tactics SlotMapProofs.
Set Implicit Arguments.

Definition live (m : slotmap) : Prop := forall i c, sm_get m i = Some c -> cdone c = false.

Definition gd (w : world) : nat := gdone (wghost w).

(** waker actions never touch the counter *)
Lemma gd_notify b w : gd (notify b w) = gd w.
Proof. unfold notify. destruct (get_blk w b) as [k|]; auto. destruct (breg k); auto. Qed.
Lemma gd_enqueue b s w : gd (snd (enqueue_slot b s w)) = gd w.
Proof. unfold enqueue_slot. destruct (get_blk w b) as [k|]; auto. destruct (nth_error (bflags k) s) as [[|]|]; auto. Qed.
Lemma gd_wake_slot b s w : gd (wake_slot b s w) = gd w.
Proof.
  unfold wake_slot. change (get_blk (g_wake w) b) with (get_blk w b).
  destruct (get_blk w b) as [k|]; auto. destruct (bfreed k); auto.
  pose proof (gd_enqueue b s (g_wake w)) as H. destruct (enqueue_slot b s (g_wake w)) as [q w1]. simpl in H.
  destruct q; auto. rewrite gd_notify. auto.
Qed.
Lemma gd_dec_strong b w : gd (dec_strong b w) = gd w.
Proof. unfold dec_strong. destruct (get_blk w b) as [k|]; auto. destruct (bfreed k); auto. destruct (bstrong k) as [|[|n]]; auto. Qed.
Lemma gd_inc_strong b w : gd (inc_strong b w) = gd w.
Proof. unfold inc_strong. destruct (get_blk w b) as [k|]; auto. destruct (bfreed k); auto. Qed.
Lemma gd_do_act cw a w : gd (do_act cw a w) = gd w.
Proof.
  destruct a; simpl.
  - destruct cw as [[t|b s]|]; simpl; auto. apply gd_wake_slot.
  - destruct cw as [[t|b s]|]; simpl; auto. apply gd_inc_strong.
  - destruct (get_handle w h) as [[t|b s]|]; simpl; auto. apply gd_wake_slot.
  - destruct (get_handle w h) as [[t|b s]|]; simpl; auto. rewrite gd_dec_strong, gd_wake_slot. reflexivity.
  - destruct (get_handle w h) as [[t|b s]|]; simpl; auto. rewrite gd_dec_strong. reflexivity.
  - destruct (get_handle w h) as [[t|b s]|]; simpl; auto. apply gd_inc_strong.
Qed.
Lemma gd_do_acts cw l w : gd (do_acts cw l w) = gd w.
Proof. unfold do_acts. revert w; induction l as [|a l IH]; simpl; intros w; auto. rewrite IH. apply gd_do_act. Qed.
Lemma gd_run_inj p k sl w : gd (run_inj p k sl w) = gd w.
Proof. unfold run_inj. destruct (find_inj p k (inj_pts (winj w))); auto. rewrite gd_do_acts. reflexivity. Qed.
Lemma gd_clear_flag b i w : gd (clear_flag b i w) = gd w.
Proof. unfold clear_flag. destruct (get_blk w b); auto. Qed.
Lemma gd_pop b w : gd (snd (pop b w)) = gd w.
Proof.
  unfold pop. destruct (forced_inc (S (popk w)) (set_popk (S (popk w)) w)); simpl.
  - rewrite gd_run_inj. reflexivity.
  - change (get_blk (set_popk (S (popk w)) w) b) with (get_blk w b).
    destruct (get_blk w b) as [kb|]; simpl; auto.
    destruct (bqueue kb) as [|i q]; simpl.
    + rewrite gd_run_inj. reflexivity.
    + rewrite gd_run_inj, gd_clear_flag, gd_run_inj. reflexivity.
Qed.
Lemma gd_self_wake b t w : gd (self_wake b t w) = gd w.
Proof. unfold self_wake. destruct (get_blk w b); reflexivity. Qed.
Lemma gd_register b t w : gd (register b t w) = gd w.
Proof. unfold register. rewrite gd_run_inj. destruct (get_blk w b); reflexivity. Qed.

(** a poll of a live child does not count, and marks the child done exactly when the answer is final *)
Lemma poll_child_live k c b s w :
  cdone c = false ->
  let '(c', r, w') := poll_child k c b s w in
  gd w' = gd w /\ cdone c' = is_final r /\ (is_ready r = false -> cdone c' = false).
Proof.
  intros Hc. unfold poll_child. rewrite Hc.
  destruct (cscript c) as [|[acts r0] rest]; simpl.
  - auto.
  - unfold gd at 1. simpl.
    change (gdone (wghost (do_acts (Some (HChild b s)) acts (emit (ECPoll (cid c) b s (b, s)) (g_poll w)))))
      with (gd (do_acts (Some (HChild b s)) acts (emit (ECPoll (cid c) b s (b, s)) (g_poll w)))).
    rewrite gd_do_acts. splits; auto.
    destruct (eff_res k r0); simpl; auto; discriminate.
Qed.

Lemma live_set m i c' : live m -> cdone c' = false -> live (sm_set m i c').
Proof.
  intros Hl Hc j c Hg. rewrite sm_get_set in Hg. destruct (Nat.eqb i j); [|eauto].
  destruct (Nat.ltb i (sm_cap m)); inversion Hg; subst; auto.
Qed.

Lemma live_remove m i : (forall j c, j <> i -> sm_get m j = Some c -> cdone c = false) -> live (sm_remove m i).
Proof.
  intros Hl j c Hg. rewrite sm_get_remove in Hg. destruct (Nat.eqb_spec i j); [discriminate|]. eauto.
Qed.

Lemma live_insert m c key m' : live m -> cdone c = false -> sm_insert m c = InsOk key m' -> live m'.
Proof.
  intros Hl Hc Hi j c0 Hg. rewrite (@sm_get_insert m c key m' j Hi) in Hg.
  destruct (Nat.eqb key j); [inversion Hg; subst; auto | eauto].
Qed.

(** the drain loop polls live children only *)
Lemma drain_live k n f t w :
  live (tasks f) ->
  let '(f', pr, w') := drain k n f t w in
  gd w' = gd w
  /\ match pr with
     | PReady i c r => (forall j c0, j <> i -> sm_get (tasks f') j = Some c0 -> cdone c0 = false)
                       /\ sm_get (tasks f') i = Some c /\ cdone c = is_final r
     | _ => live (tasks f')
     end.
Proof.
  revert f w. induction n as [|n IH]; intros f w Hl; cbn [drain].
  - split; auto. apply gd_self_wake.
  - pose proof (gd_pop (blk f) w) as Hp. destruct (pop (blk f) w) as [pr w1]. cbn [snd] in Hp.
    destruct pr as [| |i].
    + auto.
    + split; auto. rewrite gd_self_wake. auto.
    + destruct (sm_get (tasks f) i) as [c|] eqn:Hg.
      * pose proof (@poll_child_live k c (blk f) i w1 (Hl _ _ Hg)) as Hc.
        destruct (poll_child k c (blk f) i w1) as [[c' r] w2]. destruct Hc as (C1 & C2 & C3).
        destruct (is_ready r) eqn:Hr.
        -- split; [congruence|]. simpl. splits; auto.
           ++ intros j c0 Hne Hj. rewrite sm_get_set in Hj. destruct (Nat.eqb_spec i j); [congruence|]. eauto.
           ++ rewrite sm_get_set, Nat.eqb_refl. apply sm_get_lt in Hg.
              destruct (Nat.ltb_spec i (sm_cap (tasks f))); auto; lia.
        -- specialize (IH {| tasks := sm_set (tasks f) i c'; blk := blk f |} w2).
           simpl in IH. specialize (IH (@live_set (tasks f) i c' Hl (C3 eq_refl))).
           destruct (drain k n {| tasks := sm_set (tasks f) i c'; blk := blk f |} t w2) as [[f' pr'] w'].
           destruct IH as [I1 I2]. split; auto. congruence.
      * specialize (IH f w1 Hl). destruct (drain k n f t w1) as [[f' pr'] w'].
        destruct IH as [I1 I2]. split; auto. congruence.
Qed.

Lemma gd_fub_remove f i w : gd (snd (fub_remove f i w)) = gd w.
Proof. unfold fub_remove. destruct (sm_get (tasks f) i); reflexivity. Qed.

Section WithParams.
Variable P : params.

(** FuturesUnorderedBounded::poll_inner: the finished future is removed in the same call; its
    drop is the last event before the call returns *)
Theorem poll_inner_live k f t w :
  live (tasks f) ->
  let '(f', pr, w') := poll_inner P k f t w in
  gd w' = gd w /\ live (tasks f')
  /\ match pr with
     | PReady i c r => sm_get (tasks f') i = None /\ hd_error (log w') = Some (ECDrop (cid c) (Some (blk f', i)))
     | _ => True
     end.
Proof.
  intros Hl. unfold poll_inner, poll_inner_no_remove.
  destruct (Nat.eqb (fub_len f) 0); [auto|].
  pose proof (@drain_live k (pB P) f t (register (blk f) t w) Hl) as H.
  destruct (drain k (pB P) f t (register (blk f) t w)) as [[f1 pr] w1]. destruct H as [H1 H2].
  rewrite gd_register in H1.
  destruct pr as [| |i c r]; auto.
  destruct H2 as (A & B & C). unfold fub_remove. rewrite B. simpl. splits; auto.
  - apply live_remove; auto.
  - rewrite sm_get_remove, Nat.eqb_refl. reflexivity.
Qed.

Theorem fub_poll_next_live k f t w :
  live (tasks f) ->
  let '(f', sp, w') := fub_poll_next P k f t w in gd w' = gd w /\ live (tasks f').
Proof.
  intros Hl. unfold fub_poll_next. pose proof (@poll_inner_live k f t w Hl) as H.
  destruct (poll_inner P k f t w) as [[f1 pr] w1]. destruct H as (A & B & _). destruct pr; auto.
Qed.

(** MergeBounded: a source that answered None is removed in the same call; one that yielded
    an item is not final and stays *)
Theorem mb_poll_loop_live n f t w :
  live (tasks f) ->
  let '(f', sp, w') := mb_poll_loop P n f t w in gd w' = gd w /\ live (tasks f').
Proof.
  revert f w. induction n as [|n IH]; intros f w Hl; cbn [mb_poll_loop]; auto.
  unfold poll_inner_no_remove.
  destruct (Nat.eqb (fub_len f) 0); [auto|].
  pose proof (@drain_live KSrc (pB P) f t (register (blk f) t w) Hl) as H.
  destruct (drain KSrc (pB P) f t (register (blk f) t w)) as [[f1 pr] w1]. destruct H as [H1 H2].
  rewrite gd_register in H1.
  destruct pr as [| |i c r]; auto.
  destruct H2 as (A & B & C).
  assert (Hgo : let '(f0, w0) := fub_remove f1 i w1 in
                let '(f', sp, w') := mb_poll_loop P n f0 t w0 in gd w' = gd w /\ live (tasks f')).
  { unfold fub_remove. rewrite B.
    specialize (IH {| tasks := sm_remove (tasks f1) i; blk := blk f1 |} (emit (ECDrop (cid c) (Some (blk f1, i))) w1)).
    simpl in IH. specialize (IH (@live_remove (tasks f1) i A)).
    destruct (mb_poll_loop P n {| tasks := sm_remove (tasks f1) i; blk := blk f1 |} t (emit (ECDrop (cid c) (Some (blk f1, i))) w1)) as [[f' sp] w'].
    destruct IH as [I1 I2]. split; auto. rewrite I1. auto. }
  destruct r; try (destruct (fub_remove f1 i w1) as [f0 w0]; exact Hgo).
  (* an item: the source is not final *)
  split.
  - rewrite gd_enqueue. auto.
  - intros j c0 Hj. destruct (Nat.eq_dec j i) as [->|Hne]; [|eauto].
    rewrite B in Hj. inversion Hj; subst. simpl in C. auto.
Qed.

End WithParams.

(** a push stores a child that has not answered yet *)
Lemma fub_try_push_live f c w :
  live (tasks f) -> cdone c = false ->
  match fub_try_push f c w with
  | (PushOk f', w') => live (tasks f') /\ gd w' = gd w
  | (_, w') => gd w' = gd w
  end.
Proof.
  intros Hl Hc. unfold fub_try_push. destruct (sm_insert (tasks f) c) as [key m| |] eqn:Hi; auto.
  split; [eapply live_insert; eauto|]. rewrite gd_enqueue. reflexivity.
Qed.

(** ** every collection type, every operation *)
Definition flive (f : fub) : Prop := live (tasks f).

Lemma live_new cap : live (sm_new cap).
Proof. intros i c H. rewrite sm_new_get in H. discriminate. Qed.

Lemma live_from_list l : Forall (fun c => cdone c = false) l -> live (sm_from_list l).
Proof.
  intros Hall i c H. unfold sm_get, sm_from_list in H. simpl in H. rewrite nth_error_map in H.
  destruct (nth_error l i) as [c0|] eqn:Hn; simpl in H; [|discriminate]. inversion H; subst.
  rewrite Forall_forall in Hall. apply Hall. eapply nth_error_In; eauto.
Qed.

Lemma live_map f m : (forall c, cdone (f c) = cdone c) -> live m -> live (sm_map_children f m).
Proof.
  intros Hf Hl i c H. rewrite sm_get_map_children in H.
  destruct (sm_get m i) as [c0|] eqn:Hg; simpl in H; [|discriminate]. inversion H; subst. rewrite Hf. eauto.
Qed.

Lemma gd_push_all b i n w : gd (push_all b i n w) = gd w.
Proof. revert i w; induction n; simpl; intros; auto. rewrite IHn, gd_enqueue. reflexivity. Qed.

Lemma gd_alloc_block cap w : gd (snd (alloc_block cap w)) = gd w.
Proof. reflexivity. Qed.

Lemma gd_fub_new cap w : gd (snd (fub_new cap w)) = gd w /\ flive (fst (fub_new cap w)).
Proof. unfold fub_new. simpl. split; auto. apply live_new. Qed.

Lemma gd_fub_from_list l w :
  Forall (fun c => cdone c = false) l ->
  gd (snd (fub_from_list l w)) = gd w /\ flive (fst (fub_from_list l w)).
Proof. intros H. unfold fub_from_list. simpl. split; [rewrite gd_push_all; reflexivity | apply live_from_list; auto]. Qed.

Lemma gd_drop_children b m w : gd (drop_children b m w) = gd w.
Proof.
  unfold drop_children. generalize (sm_children m). intros l. revert w.
  induction l; simpl; intros; auto. rewrite IHl. reflexivity.
Qed.
Lemma gd_fub_drop f w : gd (fub_drop f w) = gd w.
Proof. unfold fub_drop. rewrite gd_dec_strong, gd_drop_children. reflexivity. Qed.

Lemma mk_children_live l : Forall (fun c => cdone c = false) (mk_children l).
Proof. unfold mk_children. rewrite Forall_map. apply Forall_forall. intros; reflexivity. Qed.

Section WithParams2.
Variable P : params.

Lemma index_children_live l i : Forall (fun c => cdone c = false) l -> Forall (fun c => cdone c = false) (index_children P l i).
Proof. revert i. induction l; simpl; intros i H; auto. inversion H; subst. constructor; auto. Qed.

Lemma mb_poll_next_live f t w :
  flive f -> let '(f', sp, w') := mb_poll_next P f t w in gd w' = gd w /\ flive f'.
Proof. intros. unfold mb_poll_next. apply mb_poll_loop_live; auto. Qed.

(** unbounded *)
Definition ulive (u : fu) : Prop := Forall flive (groups u).

Lemma fu_push_live mrg u c w :
  ulive u -> cdone c = false ->
  let '(u', w') := fu_push P mrg u c w in gd w' = gd w /\ ulive u'.
Proof.
  intros Hu Hc. unfold fu_push. cbn [groups rem cursor gcap].
  set (u0 := {| groups := groups u; rem := if mrg then rem u else S (rem u); cursor := cursor u; gcap := gcap u |}).
  assert (H1 : let '(u1, w1) := match groups u with
                                | [] => let '(g, w0) := fub_new (pMinCap P) w in push_group u0 g w0
                                | _ :: _ => (u0, w) end in
               gd w1 = gd w /\ ulive u1 /\ cursor u1 = cursor u0).
  { destruct (groups u) eqn:Hg; [|splits; auto; unfold ulive; simpl; rewrite <- Hg; exact Hu].
    destruct (gd_fub_new (pMinCap P) w) as [A B]. destruct (fub_new (pMinCap P) w) as [g w0]. simpl in A, B.
    unfold push_group. destruct (vec_grow _ _). simpl. splits; auto. unfold ulive. simpl. repeat constructor; auto. }
  destruct (match groups u with [] => _ | _ :: _ => _ end) as [u1 w1]. destruct H1 as (A & B & _).
  destruct (last_opt (groups u1)) as [lastg|] eqn:Hl; [|split; auto].
  assert (Hlg : flive lastg).
  { rewrite last_opt_nth in Hl. unfold ulive in B. rewrite Forall_forall in B. apply B. eapply nth_error_In; eauto. }
  pose proof (@fub_try_push_live lastg c w1 Hlg Hc) as Hp.
  destruct (fub_try_push lastg c w1) as [[g'| |] w2].
  - destruct Hp as [Hp1 Hp2]. simpl. split; [congruence|]. unfold ulive in *. simpl.
    clear - B Hp1. revert B. generalize (pred (length (groups u1))). generalize (groups u1).
    induction l as [|a l IH]; intros [|n] Hb; simpl; auto; inversion Hb; subst; constructor; auto.
  - destruct (gd_fub_new (fub_cap lastg * pGrowth P) w2) as [A2 B2].
    destruct (fub_new (fub_cap lastg * pGrowth P) w2) as [g w3]. simpl in A2, B2.
    pose proof (@fub_try_push_live g c w3 B2 Hc) as Hp2.
    destruct (fub_try_push g c w3) as [[g'| |] w4].
    + destruct Hp2 as [Q1 Q2]. unfold push_group. destruct (vec_grow _ _). simpl.
      split; [change (gd (count_alloc n0 w4)) with (gd w4); congruence|]. unfold ulive. simpl. apply Forall_app; split; auto.
    + split; [change (gd (emit EStuck w4)) with (gd w4); congruence|auto].
    + split; [change (gd (emit EStuck w4)) with (gd w4); congruence|auto].
  - split; [congruence|auto].
Qed.

Lemma Forall_upd {A} (Q : A -> Prop) l i x : Forall Q l -> Q x -> Forall Q (upd l i x).
Proof. revert i. induction l as [|a l IH]; intros [|i] H Hx; simpl; auto; inversion H; subst; constructor; auto. Qed.

Lemma Forall_remove_nth {A} (Q : A -> Prop) l i : Forall Q l -> Forall Q (remove_nth l i).
Proof. revert i. induction l as [|a l IH]; intros [|i] H; simpl; auto; inversion H; subst; auto. Qed.

Lemma poll_group_live mrg g t w :
  flive g -> let '(g', sp, w') := poll_group P mrg g t w in gd w' = gd w /\ flive g'.
Proof. intros H. unfold poll_group. destruct mrg; [apply mb_poll_next_live | apply fub_poll_next_live]; auto. Qed.

Lemma fu_loop_live mrg n u t w :
  ulive u -> let '(u', sp, w') := fu_loop P mrg n u t w in gd w' = gd w /\ ulive u'.
Proof.
  revert u w. induction n as [|n IH]; intros u w Hu; cbn [fu_loop].
  - destruct (if mrg then _ else _); auto.
  - set (cur := if Nat.leb (length (groups u)) (cursor u) then 0 else cursor u).
    destruct (nth_error (groups u) cur) as [g|] eqn:Hg; [|auto].
    assert (Hgl : flive g) by (unfold ulive in Hu; rewrite Forall_forall in Hu; apply Hu; eapply nth_error_In; eauto).
    pose proof (@poll_group_live mrg g t w Hgl) as Hp.
    destruct (poll_group P mrg g t w) as [[g' sp] w1]. destruct Hp as [A B].
    destruct sp.
    + specialize (IH (set_groups u (upd (groups u) cur g') (S cur)) w1).
      destruct (fu_loop P mrg n (set_groups u (upd (groups u) cur g') (S cur)) t w1) as [[u' sp'] w'].
      destruct IH as [I1 I2]; [apply Forall_upd; auto|]. split; auto. congruence.
    + destruct (remove_nth (groups u) cur) eqn:Hr.
      * split; auto. unfold ulive. simpl. repeat constructor; auto.
      * rewrite <- Hr.
        assert (Hrl : Forall flive (remove_nth (groups u) cur)) by (apply Forall_remove_nth; auto).
        destruct (Nat.eqb cur (length (remove_nth (groups u) cur))).
        -- specialize (IH (set_groups u (remove_nth (groups u) cur ++ [g']) 0) w1).
           destruct (fu_loop P mrg n (set_groups u (remove_nth (groups u) cur ++ [g']) 0) t w1) as [[u' sp'] w'].
           destruct IH as [I1 I2]; [apply Forall_app; split; auto|]. split; auto. congruence.
        -- specialize (IH (set_groups u (remove_nth (groups u) cur) cur) (fub_drop g' w1)).
           destruct (fu_loop P mrg n (set_groups u (remove_nth (groups u) cur) cur) t (fub_drop g' w1)) as [[u' sp'] w'].
           destruct IH as [I1 I2]; auto. split; auto. rewrite I1, gd_fub_drop. auto.
    + split; auto. unfold ulive. simpl. apply Forall_upd; auto.
Qed.

Lemma fu_poll_next_live mrg u t w :
  ulive u -> let '(u', sp, w') := fu_poll_next P mrg u t w in gd w' = gd w /\ ulive u'.
Proof. intros H. unfold fu_poll_next. destruct (groups u) eqn:Hg; auto. rewrite <- Hg. apply fu_loop_live; auto. Qed.

End WithParams2.

Section WithParams3.
Variable P : params.

(** ordered *)
Lemma flip_child_done c : cdone (flip_child P c) = cdone c. Proof. reflexivity. Qed.

Lemma fob_rebase_live q : flive (fo_inner q) -> flive (fo_inner (fob_rebase P q)).
Proof. intros H. unfold fob_rebase. destruct (msb_set P (nout (fo_ord q))); auto. simpl. apply live_map; auto. Qed.

Lemma gd_ord_park o i t w : gd (snd (ord_park o i t w)) = gd w.
Proof. unfold ord_park. destruct (vec_grow _ _). reflexivity. Qed.

Lemma fob_loop_live k n q t w :
  flive (fo_inner q) -> let '(q', sp, w') := fob_loop P k n q t w in gd w' = gd w /\ flive (fo_inner q').
Proof.
  revert q w. induction n as [|n IH]; intros q w H; cbn [fob_loop]; auto.
  pose proof (@fub_poll_next_live P k (fo_inner q) t w H) as Hp.
  destruct (fub_poll_next P k (fo_inner q) t w) as [[f sp] w1]. destruct Hp as [A B].
  destruct sp; cbn [fo_inner fo_ord]; auto.
  destruct (Z.eqb _ _); auto.
  pose proof (gd_ord_park (fo_ord q) (cidx c) t0 w1) as Ho.
  destruct (ord_park (fo_ord q) (cidx c) t0 w1) as [o w2]. simpl in Ho.
  specialize (IH {| fo_inner := f; fo_ord := o |} w2 B).
  destruct (fob_loop P k n {| fo_inner := f; fo_ord := o |} t w2) as [[q' sp'] w']. destruct IH. split; auto. congruence.
Qed.

Lemma fob_poll_next_live k q t w :
  flive (fo_inner q) -> let '(q', sp, w') := fob_poll_next P k q t w in gd w' = gd w /\ flive (fo_inner q').
Proof.
  intros H. unfold fob_poll_next. pose proof (fob_rebase_live q H) as H1.
  destruct (ord_try_release P (fo_ord (fob_rebase P q))) as [[tk o]|]; auto.
  apply fob_loop_live; auto.
Qed.

Lemma fob_try_push_live front q c w :
  flive (fo_inner q) -> cdone c = false ->
  match fob_try_push P front q c w with
  | (Some q', w') => flive (fo_inner q') /\ gd w' = gd w
  | (None, w') => gd w' = gd w
  end.
Proof.
  intros H Hc. unfold fob_try_push.
  pose proof (@fub_try_push_live (fo_inner q) (child_set_idx c (if front then wdec P (nout (fo_ord q)) else nin (fo_ord q))) w H Hc) as Hp.
  destruct (fub_try_push (fo_inner q) _ w) as [[f| |] w1]; auto.
Qed.

Definition olive (q : fo) : Prop := ulive (fu_inner q).

Lemma fo_rebase_live q : olive q -> olive (fo_rebase P q).
Proof.
  intros H. unfold fo_rebase. destruct (msb_set P (nout (fu_ord q))); auto. unfold olive, ulive in *. simpl.
  rewrite Forall_map. eapply Forall_impl; [|exact H]. intros g Hg. unfold flive. simpl. apply live_map; auto.
Qed.

Lemma fo_loop_live n q t w :
  olive q -> let '(q', sp, w') := fo_loop P n q t w in gd w' = gd w /\ olive q'.
Proof.
  revert q w. induction n as [|n IH]; intros q w H; cbn [fo_loop]; auto.
  pose proof (@fu_poll_next_live P false (fu_inner q) t w H) as Hp.
  destruct (fu_poll_next P false (fu_inner q) t w) as [[u sp] w1]. destruct Hp as [A B].
  destruct sp; cbn [fu_inner fu_ord]; auto.
  destruct (Z.eqb _ _); auto.
  pose proof (gd_ord_park (fu_ord q) (cidx c) t0 w1) as Ho.
  destruct (ord_park (fu_ord q) (cidx c) t0 w1) as [o w2]. simpl in Ho.
  specialize (IH {| fu_inner := u; fu_ord := o |} w2 B).
  destruct (fo_loop P n {| fu_inner := u; fu_ord := o |} t w2) as [[q' sp'] w']. destruct IH. split; auto. congruence.
Qed.

Lemma fo_poll_next_live q t w :
  olive q -> let '(q', sp, w') := fo_poll_next P q t w in gd w' = gd w /\ olive q'.
Proof.
  intros H. unfold fo_poll_next. pose proof (fo_rebase_live H) as H1.
  destruct (ord_try_release P (fu_ord (fo_rebase P q))) as [[tk o]|]; auto.
  apply fo_loop_live; auto.
Qed.

(** adapters *)
Definition qlive (q : queue) : Prop := match q with QU f => flive f | QO o => flive (fo_inner o) end.

Lemma gd_up_poll try u t w : gd (snd (up_poll try u t w)) = gd w.
Proof.
  unfold up_poll. destruct (us_ended u); simpl; auto.
  destruct (us_steps u) as [|[s|a| |] rest]; simpl; auto.
  - unfold gd. simpl. change (gdone (wghost (do_acts (Some (HTask t)) a (emit (EUpPoll UAPend) w)))) with (gd (do_acts (Some (HTask t)) a (emit (EUpPoll UAPend) w))).
    rewrite gd_do_acts. reflexivity.
  - destruct try; reflexivity.
Qed.

Lemma up_poll_child_live try u t w c :
  snd (fst (up_poll try u t w)) = UPItem c -> cdone c = false.
Proof.
  unfold up_poll. destruct (us_ended u); simpl; [discriminate|].
  destruct (us_steps u) as [|[s|a| |] rest]; simpl; try discriminate.
  - intros H; inversion H; reflexivity.
  - destruct try; discriminate.
Qed.

Lemma q_push_live q c w :
  qlive q -> cdone c = false -> let '(q', w') := q_push P q c w in gd w' = gd w /\ qlive q'.
Proof.
  intros H Hc. destruct q as [f|o]; simpl in *.
  - pose proof (@fub_try_push_live f c w H Hc) as Hp.
    destruct (fub_try_push f c w) as [[f'| |] w1]; simpl; try tauto; split; auto.
  - pose proof (@fob_try_push_live false o c w H Hc) as Hp.
    destruct (fob_try_push P false o c w) as [[o'|] w1]; simpl; try tauto; split; auto.
Qed.

Lemma q_poll_live k q t w :
  qlive q -> let '(q', sp, w') := q_poll P k q t w in gd w' = gd w /\ qlive q'.
Proof.
  intros H. destruct q as [f|o]; simpl in *.
  - pose proof (@fub_poll_next_live P k f t w H) as Hp. destruct (fub_poll_next P k f t w) as [[? ?] ?]. auto.
  - pose proof (@fob_poll_next_live k o t w H) as Hp. destruct (fob_poll_next P k o t w) as [[? ?] ?]. auto.
Qed.

Lemma fill_live n a t w :
  qlive (ad_q a) -> let '(a', e, w') := fill P n a t w in gd w' = gd w /\ qlive (ad_q a').
Proof.
  revert a w. induction n as [|n IH]; intros a w H; cbn [fill]; auto.
  destruct (Nat.ltb _ _); auto. destruct (ad_up a) as [u|]; auto.
  pose proof (gd_up_poll (ad_try a) u t w) as Hu. pose proof (@up_poll_child_live (ad_try a) u t w) as Hc.
  destruct (up_poll (ad_try a) u t w) as [[u' r] w1]. simpl in Hu, Hc.
  destruct r as [c| | |e]; simpl; auto.
  pose proof (@q_push_live (ad_q a) c w1 H (Hc c eq_refl)) as Hq.
  destruct (q_push P (ad_q a) c w1) as [q' w2]. destruct Hq as [Q1 Q2].
  specialize (IH {| ad_try := ad_try a; ad_up := Some u'; ad_q := q' |} w2 Q2).
  destruct (fill P n {| ad_try := ad_try a; ad_up := Some u'; ad_q := q' |} t w2) as [[a' e] w']. destruct IH. split; auto. congruence.
Qed.

Lemma adapter_poll_live a t w :
  qlive (ad_q a) -> let '(a', r, w') := adapter_poll P a t w in gd w' = gd w /\ qlive (ad_q a').
Proof.
  intros H. unfold adapter_poll.
  pose proof (@fill_live (S (q_cap (ad_q a))) a t w H) as Hf.
  destruct (fill P (S (q_cap (ad_q a))) a t w) as [[a1 e] w1]. destruct Hf as [F1 F2].
  destruct e; auto.
  pose proof (@q_poll_live (ad_kind a1) (ad_q a1) t w1 F2) as Hq.
  destruct (q_poll P (ad_kind a1) (ad_q a1) t w1) as [[q sp] w2]. destruct Hq as [Q1 Q2].
  destruct sp; simpl; [| destruct (ad_up a1) |]; simpl; split; auto; congruence.
Qed.

Lemma fec_loop_live n a t w :
  flive (fe_q a) -> let '(a', r, w') := fec_loop P n a t w in gd w' = gd w /\ flive (fe_q a').
Proof.
  revert a w. induction n as [|n IH]; intros a w H; cbn [fec_loop]; auto.
  assert (Hpull : let '(a1, pulled, w1) :=
                    (if Nat.ltb (fub_len (fe_q a)) (fub_cap (fe_q a)) then
                       match fe_up a with
                       | Some u =>
                           let '(u, r, w) := up_poll false u t w in
                           match r with
                           | UPItem c =>
                               match fub_try_push (fe_q a) c w with
                               | (PushOk f, w) => ({| fe_up := Some u; fe_q := f |}, true, w)
                               | (_, w) => ({| fe_up := Some u; fe_q := fe_q a |}, true, emit EStuck w)
                               end
                           | UPEnd => ({| fe_up := None; fe_q := fe_q a |}, false, emit EUpDrop w)
                           | _ => ({| fe_up := Some u; fe_q := fe_q a |}, false, w)
                           end
                       | None => (a, false, w)
                       end
                     else (a, false, w)) in gd w1 = gd w /\ flive (fe_q a1)).
  { destruct (Nat.ltb _ _); auto. destruct (fe_up a) as [u|]; auto.
    pose proof (gd_up_poll false u t w) as Hu. pose proof (@up_poll_child_live false u t w) as Hc.
    destruct (up_poll false u t w) as [[u' r] w1]. simpl in Hu, Hc.
    destruct r as [c| | |e]; simpl; auto.
    pose proof (@fub_try_push_live (fe_q a) c w1 H (Hc c eq_refl)) as Hp.
    destruct (fub_try_push (fe_q a) c w1) as [[f'| |] w2]; simpl.
    - destruct Hp. split; auto. congruence.
    - split; auto. change (gd (emit EStuck w2)) with (gd w2). congruence.
    - split; auto. change (gd (emit EStuck w2)) with (gd w2). congruence. }
  destruct (if Nat.ltb (fub_len (fe_q a)) (fub_cap (fe_q a)) then _ else _) as [[a1 pulled] w1].
  destruct Hpull as [A B].
  pose proof (@fub_poll_next_live P KFut (fe_q a1) t w1 B) as Hp.
  destruct (fub_poll_next P KFut (fe_q a1) t w1) as [[f sp] w2]. destruct Hp as [C D].
  assert (Hgo : let '(a', r, w') := fec_loop P n {| fe_up := fe_up a1; fe_q := f |} t w2 in gd w' = gd w /\ flive (fe_q a')).
  { specialize (IH {| fe_up := fe_up a1; fe_q := f |} w2 D).
    destruct (fec_loop P n {| fe_up := fe_up a1; fe_q := f |} t w2) as [[a' r] w']. destruct IH. split; auto. congruence. }
  assert (Hdone : gd w2 = gd w /\ flive f) by (split; auto; congruence).
  destruct sp; simpl.
  - destruct pulled; auto.
  - destruct (fe_up a1); auto. destruct pulled; auto.
  - auto.
Qed.

(** join *)
Lemma gd_drop_outputs i skip m out w : gd (drop_outputs_from i skip m out w) = gd w.
Proof.
  revert i w; induction out as [|o rest IH]; intros i w; simpl; auto.
  rewrite IH. destruct (match skip with Some s => Nat.eqb s i | None => false end); auto.
  destruct (sm_get m i); auto.
Qed.

Lemma fub_clear_live f w : flive f -> gd (snd (fub_clear f w)) = gd w /\ flive (fst (fub_clear f w)).
Proof.
  unfold fub_clear. generalize (seq 0 (fub_cap f)). intros l. revert f w.
  induction l as [|j l IH]; intros f w H; simpl; auto.
  assert (Hr : gd (snd (fub_remove f j w)) = gd w /\ flive (fst (fub_remove f j w))).
  { split; [apply gd_fub_remove|]. unfold fub_remove. destruct (sm_get (tasks f) j); auto.
    unfold flive. simpl. apply live_remove. intros; eauto. }
  destruct (fub_remove f j w) as [f1 w1]. destruct Hr as [R1 R2]. simpl in *.
  destruct (IH f1 w1 R2) as [I1 I2]. split; auto. congruence.
Qed.

Lemma join_loop_live n j t w :
  flive (j_q j) -> let '(j', r, w') := join_loop P n j t w in gd w' = gd w /\ flive (j_q j').
Proof.
  revert j w. induction n as [|n IH]; intros j w H; cbn [join_loop]; auto.
  pose proof (@poll_inner_live P (if j_try j then KTry else KFut) (j_q j) t w H) as Hp.
  destruct (poll_inner P (if j_try j then KTry else KFut) (j_q j) t w) as [[f pr] w1].
  destruct Hp as (A & B & _).
  destruct pr as [| |i c r]; simpl; auto.
  assert (Hgo : let '(j', r', w') := join_loop P n {| j_try := j_try j; j_q := f; j_out := upd (j_out j) i (Some (TOut (cid c))) |} t w1 in
                gd w' = gd w /\ flive (j_q j')).
  { specialize (IH {| j_try := j_try j; j_q := f; j_out := upd (j_out j) i (Some (TOut (cid c))) |} w1 B).
    destruct (join_loop P n _ t w1) as [[j' r'] w']. destruct IH. split; auto. congruence. }
  destruct r; try exact Hgo.
  destruct (@fub_clear_live f (drop_outputs_from 0 (Some i) (tasks f) (j_out j) w1) B) as [C1 C2].
  destruct (fub_clear f (drop_outputs_from 0 (Some i) (tasks f) (j_out j) w1)) as [f' w2]. simpl in *.
  split; auto. rewrite C1, gd_drop_outputs. auto.
Qed.

(** ** the top level *)
Definition coll_live (k : coll) : Prop :=
  match k with
  | CFub f | CMb f => flive f
  | CFu u | CMu u => ulive u
  | CFob q => flive (fo_inner q)
  | CFo q => olive q
  | CAd a => qlive (ad_q a)
  | CFec a => flive (fe_q a)
  | CJoin j => flive (j_q j)
  | _ => True
  end.

Lemma gd_emit_ret r w : gd (emit_ret r w) = gd w.
Proof.
  unfold emit_ret. generalize (ret_toks r). intros l.
  assert (H : forall w0, gd (fold_left (fun w t => emit (EODrop t false) w) l w0) = gd w0).
  { induction l; simpl; intros; auto. rewrite IHl. reflexivity. }
  rewrite H. reflexivity.
Qed.

Lemma gd_cleanup_from n h w : gd (cleanup_from n h w) = gd w.
Proof. revert h w; induction n; intros; cbn [cleanup_from]; auto. rewrite IHn. apply gd_do_act. Qed.

Lemma gd_fu_drop u w : gd (fu_drop u w) = gd w.
Proof.
  unfold fu_drop. generalize (groups u). intros l. revert w.
  induction l; simpl; intros; auto. rewrite IHl. apply gd_fub_drop.
Qed.

Lemma gd_drop_heap h w : gd (drop_heap h w) = gd w.
Proof. unfold drop_heap. revert w; induction h; simpl; intros; auto. rewrite IHh. reflexivity. Qed.

End WithParams3.

Section Top.
Variable P : params.

Lemma fu_from_list_live mrg h l w :
  Forall (fun c => cdone c = false) l ->
  let '(u, w') := fu_from_list P mrg h l w in gd w' = gd w /\ ulive u.
Proof.
  intros Hl. unfold fu_from_list.
  assert (H0 : let '(u0, w0) := (if mrg then (fu_empty, w) else fu_with_capacity (Nat.max h (pMinCap P)) w) in
               gd w0 = gd w /\ ulive u0).
  { destruct mrg; [split; auto; constructor|]. unfold fu_with_capacity.
    destruct (Nat.eqb _ 0); [split; auto; constructor|].
    destruct (gd_fub_new (Nat.max h (pMinCap P)) w) as [A B].
    destruct (fub_new (Nat.max h (pMinCap P)) w) as [g w1]. simpl in *. split; auto. repeat constructor; auto. }
  destruct (if mrg then (fu_empty, w) else fu_with_capacity (Nat.max h (pMinCap P)) w) as [u0 w0].
  destruct H0 as [A B]. revert u0 w0 A B. induction Hl as [|c l Hc Hl IH]; intros u0 w0 A B; simpl; auto.
  pose proof (@fu_push_live P mrg u0 c w0 B Hc) as Hp. destruct (fu_push P mrg u0 c w0) as [u1 w1].
  destruct Hp as [Q1 Q2]. simpl. apply IH; auto. congruence.
Qed.

Lemma build_live t p inits ups w :
  let '(k, w') := build P t p inits ups w in gd w' = gd w /\ coll_live k.
Proof.
  unfold build.
  pose proof (mk_children_live inits) as Hm.
  assert (Hidx : Forall (fun c => cdone c = false) (index_children P (mk_children inits) 0)) by (apply index_children_live; auto).
  assert (Hfob : forall cap seed, match fob_new P cap seed w with
                  | (NewOk q, w1) => gd w1 = gd w /\ flive (fo_inner q)
                  | (NewPanic, w1) => gd w1 = gd w end).
  { intros. unfold fob_new, heap_cap_for. destruct (gd_fub_new cap w). destruct (fub_new cap w). simpl in *. split; auto. }
  destruct t.
  - destruct (p_iter p).
    + destruct (gd_fub_from_list w Hm). destruct (fub_from_list (mk_children inits) w). auto.
    + destruct (gd_fub_new (p_cap p) w). destruct (fub_new (p_cap p) w). auto.
  - destruct (p_iter p); [|destruct (p_new p)].
    + pose proof (@fu_from_list_live false (lazy_hint p (mk_children inits)) _ w Hm) as H. destruct (fu_from_list P false (lazy_hint p (mk_children inits)) (mk_children inits) w). auto.
    + split; auto. constructor.
    + unfold fu_with_capacity. destruct (Nat.eqb _ 0); [split; auto; constructor|].
      destruct (gd_fub_new (p_cap p) w). destruct (fub_new (p_cap p) w). simpl in *. split; auto. repeat constructor; auto.
  - destruct (gd_fub_from_list w Hm). destruct (fub_from_list (mk_children inits) w). auto.
  - destruct (p_iter p); [|destruct (p_new p)].
    + pose proof (@fu_from_list_live true (lazy_hint p (mk_children inits)) _ w Hm) as H. destruct (fu_from_list P true (lazy_hint p (mk_children inits)) (mk_children inits) w). auto.
    + split; auto. constructor.
    + unfold fu_with_capacity. destruct (Nat.eqb _ 0); [split; auto; constructor|].
      destruct (gd_fub_new (p_cap p) w). destruct (fub_new (p_cap p) w). simpl in *. split; auto. repeat constructor; auto.
  - destruct (p_iter p).
    + unfold fob_from_list. destruct (gd_fub_from_list w Hidx). destruct (fub_from_list _ w). simpl in *.
      split; auto. destruct (mk_children inits); simpl; auto. destruct (p_seed p); auto.
    + specialize (Hfob (p_cap p) (seed_of p)). destruct (fob_new P (p_cap p) (seed_of p) w) as [[q|] w1]; auto.
      split; simpl; auto.
  - destruct (p_iter p); [|destruct (p_new p)].
    + unfold fo_from_list. pose proof (@fu_from_list_live false (lazy_hint p (mk_children inits)) _ w Hidx) as H.
      destruct (fu_from_list P false (lazy_hint p (mk_children inits)) (index_children P (mk_children inits) 0) w). destruct H. simpl.
      split; auto. destruct (mk_children inits); simpl; auto. destruct (p_seed p); auto.
    + split; auto. constructor.
    + unfold fo_with_capacity, fu_with_capacity, heap_cap_for. destruct (Nat.eqb _ 0); [split; auto; constructor|].
      destruct (gd_fub_new (p_cap p) w). destruct (fub_new (p_cap p) w). simpl in *. split; auto. repeat constructor; auto.
  - destruct (gd_fub_new (p_cap p) w). destruct (fub_new (p_cap p) w). auto.
  - specialize (Hfob (p_cap p) 0%Z). destruct (fob_new P (p_cap p) 0%Z w) as [[q|] w1]; auto. split; simpl; auto.
  - destruct (gd_fub_new (p_cap p) w). destruct (fub_new (p_cap p) w). auto.
  - specialize (Hfob (p_cap p) 0%Z). destruct (fob_new P (p_cap p) 0%Z w) as [[q|] w1]; auto. split; simpl; auto.
  - destruct (gd_fub_new (p_cap p) w). destruct (fub_new (p_cap p) w). auto.
  - unfold join_new. destruct (gd_fub_from_list w Hm). destruct (fub_from_list (mk_children inits) w). auto.
  - unfold join_new. destruct (gd_fub_from_list w Hm). destruct (fub_from_list (mk_children inits) w). auto.
Qed.

Lemma do_push_live try front c sc k w :
  coll_live k -> let '(k', w') := do_push P try front c sc k w in gd w' = gd w /\ coll_live k'.
Proof.
  intros H. unfold do_push.
  assert (Hc : cdone (mk_child c sc) = false) by reflexivity.
  destruct k; simpl in *; auto.
  - destruct front; auto. pose proof (@fub_try_push_live f (mk_child c sc) w H Hc) as Hp.
    destruct (fub_try_push f (mk_child c sc) w) as [[f'| |] w1]; simpl.
    + destruct Hp. auto.
    + split; auto. destruct try; simpl; auto.
    + split; auto. destruct try; simpl; auto.
  - destruct front; auto. pose proof (@fub_try_push_live f (mk_child c sc) w H Hc) as Hp.
    destruct (fub_try_push f (mk_child c sc) w) as [[f'| |] w1]; simpl.
    + destruct Hp. auto.
    + split; auto. destruct try; simpl; auto.
    + split; auto. destruct try; simpl; auto.
  - destruct (try || front); auto. pose proof (@fu_push_live P false u (mk_child c sc) w H Hc) as Hp.
    destruct (fu_push P false u (mk_child c sc) w). destruct Hp. auto.
  - destruct (try || front); auto. pose proof (@fu_push_live P true u (mk_child c sc) w H Hc) as Hp.
    destruct (fu_push P true u (mk_child c sc) w). destruct Hp. auto.
  - pose proof (@fob_try_push_live P front q (mk_child c sc) w H Hc) as Hp.
    destruct (fob_try_push P front q (mk_child c sc) w) as [[q'|] w1]; simpl.
    + destruct Hp. auto.
    + split; auto. destruct try; simpl; auto.
  - destruct try; auto. unfold fo_push.
    pose proof (@fu_push_live P false (fu_inner q) (child_set_idx (mk_child c sc) (if front then wdec P (nout (fu_ord q)) else nin (fu_ord q))) w H eq_refl) as Hp.
    destruct (fu_push P false (fu_inner q) _ w). destruct Hp. auto.
Qed.

Lemma do_poll_live t k w :
  coll_live k -> let '(k', w') := do_poll P t k w in gd w' = gd w /\ coll_live k'.
Proof.
  intros H. unfold do_poll. destruct k; simpl in *; auto.
  - pose proof (@fub_poll_next_live P KFut f t w H) as Hp. destruct (fub_poll_next P KFut f t w) as [[? ?] ?].
    destruct Hp. rewrite gd_emit_ret. auto.
  - pose proof (@mb_poll_next_live P f t w H) as Hp. destruct (mb_poll_next P f t w) as [[? ?] ?].
    destruct Hp. rewrite gd_emit_ret. auto.
  - pose proof (@fu_poll_next_live P false u t w H) as Hp. destruct (fu_poll_next P false u t w) as [[? ?] ?].
    destruct Hp. rewrite gd_emit_ret. auto.
  - pose proof (@fu_poll_next_live P true u t w H) as Hp. destruct (fu_poll_next P true u t w) as [[? ?] ?].
    destruct Hp. rewrite gd_emit_ret. auto.
  - pose proof (@fob_poll_next_live P KFut q t w H) as Hp. destruct (fob_poll_next P KFut q t w) as [[? ?] ?].
    destruct Hp. rewrite gd_emit_ret. auto.
  - pose proof (@fo_poll_next_live P q t w H) as Hp. destruct (fo_poll_next P q t w) as [[? ?] ?].
    destruct Hp. rewrite gd_emit_ret. auto.
  - pose proof (@adapter_poll_live P a t w H) as Hp. destruct (adapter_poll P a t w) as [[? ?] ?].
    destruct Hp. rewrite gd_emit_ret. auto.
  - unfold fec_poll. pose proof (@fec_loop_live P (fec_fuel a) a t w H) as Hp.
    destruct (fec_loop P (fec_fuel a) a t w) as [[? ?] ?]. destruct Hp. rewrite gd_emit_ret. auto.
  - unfold join_poll. pose proof (@join_loop_live P (S (fub_len (j_q j))) j t w H) as Hp.
    destruct (join_loop P (S (fub_len (j_q j))) j t w) as [[? ?] ?]. destruct Hp. rewrite gd_emit_ret. auto.
Qed.

Lemma do_drop_live k w : let '(k', w') := do_drop k w in gd w' = gd w /\ coll_live k'.
Proof.
  unfold do_drop. destruct k; simpl; auto; split; auto.
  - apply gd_fub_drop. - apply gd_fub_drop. - apply gd_fu_drop. - apply gd_fu_drop.
  - unfold fob_drop. rewrite gd_drop_heap. apply gd_fub_drop.
  - unfold fo_drop. rewrite gd_drop_heap. apply gd_fu_drop.
  - unfold adapter_drop, queue_drop. destruct (ad_q a); [rewrite gd_fub_drop | unfold fob_drop; rewrite gd_drop_heap, gd_fub_drop]; destruct (ad_up a); reflexivity.
  - unfold fec_drop. rewrite gd_fub_drop. destruct (fe_up a); reflexivity.
  - unfold join_drop. rewrite gd_fub_drop, gd_drop_outputs. reflexivity.
Qed.

Theorem step_core_live k o w :
  coll_live k -> let '(k', w') := step_core P k o w in gd w' = gd w /\ coll_live k'.
Proof.
  intros H. unfold step_core. destruct o.
  - destruct k; auto. apply build_live.
  - apply do_push_live; auto.
  - apply do_push_live; auto.
  - apply do_push_live; auto.
  - apply do_push_live; auto.
  - apply do_poll_live; auto.
  - split; auto. apply gd_do_act.
  - split; auto. destruct (observe P k); reflexivity.
  - auto.
  - pose proof (do_drop_live k w) as Hd. destruct (do_drop k w). destruct Hd; auto.
  - split; auto. unfold cleanup. apply gd_cleanup_from.
Qed.

(** in every reachable state no held child has given its final answer, and no child was ever
    polled after its final answer *)
Fixpoint run_state' (s : state) (ops : list op) : state :=
  match ops with [] => s | o :: rest => run_state' (fst (step_op P s o)) rest end.

Theorem never_polled_after_completion ops :
  let s := run_state' init_state ops in
  gd (st_world s) = 0 /\ coll_live (st_coll s).
Proof.
  assert (H : forall s, gd (st_world s) = 0 -> coll_live (st_coll s) ->
              gd (st_world (run_state' s ops)) = 0 /\ coll_live (st_coll (run_state' s ops))).
  { induction ops as [|o ops IH]; simpl; intros s Hg Hl; auto.
    apply IH; unfold step_op; destruct (is_dead (st_coll s)); auto.
    - pose proof (@step_core_live (st_coll s) o (begin_op (op_inj o) (st_world s)) Hl) as Hs.
      destruct (step_core P (st_coll s) o (begin_op (op_inj o) (st_world s))) as [k' w']. simpl.
      destruct Hs as [A _]. rewrite A. exact Hg.
    - pose proof (@step_core_live (st_coll s) o (begin_op (op_inj o) (st_world s)) Hl) as Hs.
      destruct (step_core P (st_coll s) o (begin_op (op_inj o) (st_world s))) as [k' w']. simpl. apply Hs. }
  apply H; simpl; auto.
Qed.

End Top.
