(** * AddrHistory: a child keeps its address from the moment it is taken until it is dropped (C08,
    whole histories)

    The address of a child in the model is (waker block of its group, slot).  For every history:
    a child that is held now and has not been taken since some earlier moment was, at that
    earlier moment, at the same address — whatever pushes, polls, group creations, discards,
    rotations, re-basings and upstream pulls happened in between. *)
From FB Require Import Base Syntax World SlotMap Fub Unbounded Ordered Adapters Step Tactics SlotMapProofs WorldProofs FubProofs
  UnboundedProofs OrderedProofs AdaptersProofs StepProofs Reach JoinProofs AddrProofs FobOrder LedgerProofs.
Set Implicit Arguments.

(** the groups (slot arrays) of a collection *)
Definition coll_groups (k : coll) : list fub :=
  match k with
  | CFub f | CMb f => [f]
  | CFu u | CMu u => groups u
  | CFob q => [fo_inner q]
  | CFo q => groups (fu_inner q)
  | CAd a => [q_fub (ad_q a)]
  | CFec a => [fe_q a]
  | CJoin j => [j_q j]
  | _ => []
  end.

(** every child of [gs'] was at the same address in [gs], or is one of [news] *)
Definition sub_new (gs gs' : list fub) (news : list N) : Prop :=
  forall b i id, at_addr gs' b i id -> at_addr gs b i id \/ In id news.

Lemma sub_new_refl gs : sub_new gs gs []. Proof. intros b i id H; auto. Qed.
Lemma sub_new_trans g1 g2 g3 n1 n2 : sub_new g1 g2 n1 -> sub_new g2 g3 n2 -> sub_new g1 g3 (n2 ++ n1).
Proof.
  intros H1 H2 b i id H. destruct (H2 b i id H) as [H'|H']; [|right; apply in_or_app; auto].
  destruct (H1 b i id H') as [H''|H'']; auto. right; apply in_or_app; auto.
Qed.
Lemma sub_new_weaken gs gs' n n' : sub_new gs gs' n -> incl n n' -> sub_new gs gs' n'.
Proof. intros H Hi b i id Ha. destruct (H b i id Ha); auto. Qed.

Lemma keeps_single f f' : blk f' = blk f -> sub_ids (tasks f) (tasks f') -> sub_new [f] [f'] [].
Proof.
  intros Hb Hs b i id (g & [<-|[]] & H1 & H2). left. exists f. splits; auto; [left; auto|congruence].
Qed.

Lemma single_at f b i id : at_addr [f] b i id <-> (blk f = b /\ option_map cid (sm_get (tasks f) i) = Some id).
Proof.
  split.
  - intros (g & [<-|[]] & H1 & H2). auto.
  - intros [H1 H2]. exists f. splits; auto. left; auto.
Qed.

Lemma push_single f c w f' w' :
  fub_try_push f c w = (PushOk f', w') -> sub_new [f] [f'] [cid c].
Proof.
  intros H. destruct (fub_try_push_addr _ _ _ H) as (Hb & _ & Hn).
  intros b i id Ha. apply single_at in Ha as [H1 H2].
  destruct (Hn i id H2) as [H3|[H3 _]]; [left; apply single_at; split; congruence|right; left; auto].
Qed.

Section WithParams.
Variable P : params.
Hypothesis HP : params_ok P.

Lemma fu_poll_next_addr mrg u t w : sub_new (groups u) (groups (fst (fst (fu_poll_next P mrg u t w)))) [].
Proof.
  unfold fu_poll_next. destruct (groups u) eqn:Hg; [cbn [fst]; rewrite Hg; apply sub_new_refl|]. rewrite <- Hg.
  intros b i id H. left. pose proof (fu_loop_addr P mrg (length (groups u)) u t w b i id) as Ha.
  destruct (fu_loop P mrg (length (groups u)) u t w) as [[u' sp] w']. auto.
Qed.

Lemma fu_push_addr' mrg u c w : sub_new (groups u) (groups (fst (fu_push P mrg u c w))) [cid c].
Proof.
  intros b i id H. pose proof (fu_push_addr P mrg u c w b i id) as Ha.
  destruct (fu_push P mrg u c w) as [u' w']. destruct (Ha H); auto. right; left; auto.
Qed.

(** ordered queues *)
Lemma fob_rebase_addr q : sub_new [fo_inner q] [fo_inner (fob_rebase P q)] [].
Proof.
  unfold fob_rebase. destruct (msb_set P (nout (fo_ord q))); [|apply sub_new_refl].
  apply keeps_single; auto. simpl. intros j id H. rewrite rebase_addr in H. exact H.
Qed.

Lemma fob_loop_addr k n q t w : sub_new [fo_inner q] [fo_inner (fst (fst (fob_loop P k n q t w)))] [].
Proof.
  revert q w. induction n as [|n IH]; intros q w; cbn [fob_loop]; cbn [fst]; [apply sub_new_refl|].
  pose proof (fub_poll_next_addr P k (fo_inner q) t w) as H.
  destruct (fub_poll_next P k (fo_inner q) t w) as [[f sp] w1]. destruct H as [Hb Hs].
  pose proof (keeps_single _ Hb Hs) as Hk.
  destruct sp as [| |tk c]; cbn [fst fo_inner]; auto.
  destruct (Z.eqb (cidx c) (nout (fo_ord {| fo_inner := f; fo_ord := fo_ord q |}))); cbn [fst fo_inner]; auto.
  destruct (ord_park (fo_ord {| fo_inner := f; fo_ord := fo_ord q |}) (cidx c) tk w1) as [o w2].
  pose proof (sub_new_trans Hk (IH {| fo_inner := f; fo_ord := o |} w2)) as T. simpl in T. exact T.
Qed.

Lemma fob_poll_next_addr k q t w : sub_new [fo_inner q] [fo_inner (fst (fst (fob_poll_next P k q t w)))] [].
Proof.
  unfold fob_poll_next. pose proof (fob_rebase_addr q) as Hr.
  destruct (ord_try_release P (fo_ord (fob_rebase P q))) as [[tk o]|]; cbn [fst fo_inner]; auto.
  pose proof (sub_new_trans Hr (fob_loop_addr k (S (fub_len (fo_inner (fob_rebase P q)))) (fob_rebase P q) t w)) as T.
  simpl in T. exact T.
Qed.

Lemma fob_try_push_addr front q c w :
  match fob_try_push P front q c w with
  | (Some q', _) => sub_new [fo_inner q] [fo_inner q'] [cid c]
  | (None, _) => True
  end.
Proof.
  unfold fob_try_push.
  destruct (fub_try_push (fo_inner q) (child_set_idx c (if front then wdec P (nout (fo_ord q)) else nin (fo_ord q))) w)
    as [[f| |] w1] eqn:E; auto.
  apply (push_single _ _ _ E).
Qed.

Lemma fo_rebase_addr q : sub_new (groups (fu_inner q)) (groups (fu_inner (fo_rebase P q))) [].
Proof.
  unfold fo_rebase. destruct (msb_set P (nout (fu_ord q))); [|apply sub_new_refl]. simpl.
  intros b i id (g & Hin & H1 & H2). apply in_map_iff in Hin as (g0 & <- & Hin0). simpl in *.
  rewrite rebase_addr in H2. left. exists g0. auto.
Qed.

Lemma fo_loop_addr n q t w : sub_new (groups (fu_inner q)) (groups (fu_inner (fst (fst (fo_loop P n q t w))))) [].
Proof.
  revert q w. induction n as [|n IH]; intros q w; cbn [fo_loop]; cbn [fst]; [apply sub_new_refl|].
  pose proof (fu_poll_next_addr false (fu_inner q) t w) as Hk.
  destruct (fu_poll_next P false (fu_inner q) t w) as [[u sp] w1]. cbn [fst] in Hk.
  destruct sp as [| |tk c]; cbn [fst fu_inner]; auto.
  destruct (Z.eqb (cidx c) (nout (fu_ord {| fu_inner := u; fu_ord := fu_ord q |}))); cbn [fst fu_inner]; auto.
  destruct (ord_park (fu_ord {| fu_inner := u; fu_ord := fu_ord q |}) (cidx c) tk w1) as [o w2].
  pose proof (sub_new_trans Hk (IH {| fu_inner := u; fu_ord := o |} w2)) as T. simpl in T. exact T.
Qed.

Lemma fo_poll_next_addr q t w : sub_new (groups (fu_inner q)) (groups (fu_inner (fst (fst (fo_poll_next P q t w))))) [].
Proof.
  unfold fo_poll_next. pose proof (fo_rebase_addr q) as Hr.
  destruct (ord_try_release P (fu_ord (fo_rebase P q))) as [[tk o]|]; cbn [fst fu_inner]; auto.
  pose proof (sub_new_trans Hr (fo_loop_addr (S (rem (fu_inner (fo_rebase P q)))) (fo_rebase P q) t w)) as T.
  simpl in T. exact T.
Qed.


(** ** adapters: the children pulled from upstream are the new ones *)
Definition isuf (w w' : world) (news : list N) : Prop := exists l, log w' = l ++ log w /\ incl news (acc l).

Lemma isuf_of_qsuf w w' : qsuf w w' -> isuf w w' [].
Proof. intros (l & H & _). exists l. split; auto. intros x []. Qed.
Lemma isuf_of_BAL a w b w' : BAL a w b w' -> isuf w w' [].
Proof. intros (l & H & _). exists l. split; auto. intros x []. Qed.
Lemma isuf_trans w1 w2 w3 n1 n2 : isuf w1 w2 n1 -> isuf w2 w3 n2 -> isuf w1 w3 (n2 ++ n1).
Proof.
  intros (l1 & H1 & A1) (l2 & H2 & A2). exists (l2 ++ l1). rewrite H2, H1, app_assoc, acc_app. split; auto.
  apply incl_app; [apply incl_appl; auto|apply incl_appr; auto].
Qed.
Lemma isuf_refl w : isuf w w []. Proof. exists []. split; auto. intros x []. Qed.

Definition qg (q : queue) : list fub := [q_fub q].

Lemma q_push_addr q c w :
  sub_new (qg q) (qg (fst (q_push P q c w))) [cid c] /\ qsuf w (snd (q_push P q c w)).
Proof.
  destruct q as [f|o]; simpl.
  - pose proof (fub_try_push_bal f c w) as Hb.
    destruct (fub_try_push f c w) as [[f'| |] w1] eqn:E; cbn [fst snd qg q_fub].
    + destruct Hb as [_ Hb]. split; auto. apply (push_single _ _ _ E).
    + split; [eapply sub_new_weaken; [apply sub_new_refl|intros x []]|]. eapply qsuf_trans; [exact Hb|]. apply qsuf_emit; reflexivity.
    + split; [eapply sub_new_weaken; [apply sub_new_refl|intros x []]|]. eapply qsuf_trans; [exact Hb|]. apply qsuf_emit; reflexivity.
  - pose proof (fob_try_push_addr false o c w) as Ha. pose proof (fob_try_push_bal P false o c w) as Hb.
    destruct (fob_try_push P false o c w) as [[o'|] w1]; cbn [fst snd qg q_fub].
    + destruct Hb as [_ Hb]. split; auto.
    + split; [eapply sub_new_weaken; [apply sub_new_refl|intros x []]|]. eapply qsuf_trans; [exact Hb|]. apply qsuf_emit; reflexivity.
Qed.

Lemma q_poll_addr k q t w : sub_new (qg q) (qg (fst (fst (q_poll P k q t w)))) [].
Proof.
  destruct q as [f|o]; simpl.
  - pose proof (fub_poll_next_addr P k f t w) as H. destruct (fub_poll_next P k f t w) as [[f' sp] w1].
    destruct H as [Hb Hs]. cbn [fst qg q_fub]. apply keeps_single; auto.
  - pose proof (fob_poll_next_addr k o t w) as H. destruct (fob_poll_next P k o t w) as [[o' sp] w1]. exact H.
Qed.

Lemma up_poll_isuf try u t w :
  isuf w (snd (up_poll try u t w)) (match snd (fst (up_poll try u t w)) with UPItem c => [cid c] | _ => [] end).
Proof.
  pose proof (up_poll_bal try u t w) as H. destruct (up_poll try u t w) as [[u' r] w1]. cbn [fst snd] in *.
  destruct r as [c| | |e]; try (apply isuf_of_qsuf; exact H).
  exists [EUpPoll (UAItem (cid c))]. split; auto. simpl. apply incl_refl.
Qed.

Lemma fill_addr n a t w :
  exists news, isuf w (snd (fill P n a t w)) news /\ sub_new (qg (ad_q a)) (qg (ad_q (fst (fst (fill P n a t w))))) news.
Proof.
  revert a w. induction n as [|n IH]; intros a w; cbn [fill]; cbn [fst snd].
  - exists []. split; [apply isuf_of_qsuf; apply qsuf_emit; reflexivity|apply sub_new_refl].
  - destruct (Nat.ltb (q_len (ad_q a)) (q_cap (ad_q a))); [|exists []; split; [apply isuf_refl|apply sub_new_refl]].
    destruct (ad_up a) as [u|]; [|exists []; split; [apply isuf_refl|apply sub_new_refl]].
    pose proof (up_poll_isuf (ad_try a) u t w) as Hu.
    destruct (up_poll (ad_try a) u t w) as [[u' r] w1]. cbn [fst snd] in Hu.
    destruct r as [c| | |e]; cbn [fst snd ad_q].
    + destruct (q_push_addr (ad_q a) c w1) as [Hs Hq]. destruct (q_push P (ad_q a) c w1) as [q' w2]. cbn [fst snd] in *.
      destruct (IH {| ad_try := ad_try a; ad_up := Some u'; ad_q := q' |} w2) as (n2 & A2 & S2). cbn [ad_q] in S2.
      exists (n2 ++ [] ++ [cid c]). split.
      * eapply isuf_trans; [eapply isuf_trans; [exact Hu|apply isuf_of_qsuf; exact Hq]|exact A2].
      * simpl. eapply sub_new_trans; eauto.
    + exists []. split; auto. apply sub_new_refl.
    + exists []. split; [|apply sub_new_refl].
      pose proof (isuf_trans Hu (isuf_of_qsuf (qsuf_emit EUpDrop w1 eq_refl))) as T. exact T.
    + exists []. split; auto. apply sub_new_refl.
Qed.

Lemma adapter_poll_addr a t w :
  exists news, isuf w (snd (adapter_poll P a t w)) news
               /\ sub_new (qg (ad_q a)) (qg (ad_q (fst (fst (adapter_poll P a t w))))) news.
Proof.
  unfold adapter_poll. destruct (fill_addr (S (q_cap (ad_q a))) a t w) as (n1 & A1 & S1).
  destruct (fill P (S (q_cap (ad_q a))) a t w) as [[a1 e] w1]. cbn [fst snd] in *.
  destruct e as [tk|]; cbn [fst snd]; [exists n1; auto|].
  pose proof (q_poll_addr (ad_kind a1) (ad_q a1) t w1) as Hq.
  pose proof (isuf_of_BAL (q_poll_bal P (ad_kind a1) (ad_q a1) t w1)) as Hb.
  destruct (q_poll P (ad_kind a1) (ad_q a1) t w1) as [[q sp] w2]. cbn [fst snd] in *.
  assert (H : isuf w w2 ([] ++ n1) /\ sub_new (qg (ad_q a)) (qg q) ([] ++ n1)).
  { split; [eapply isuf_trans; eauto|eapply sub_new_trans; eauto]. }
  simpl in H. exists n1. destruct sp; cbn [fst snd ad_q]; auto. destruct (ad_up a1); cbn [fst snd ad_q]; auto.
Qed.

(** for_each_concurrent *)
Lemma fec_loop_addr n a t w :
  exists news, isuf w (snd (fec_loop P n a t w)) news /\ sub_new [fe_q a] [fe_q (fst (fst (fec_loop P n a t w)))] news.
Proof.
  revert a w. induction n as [|n IH]; intros a w; cbn [fec_loop]; cbn [fst snd].
  - exists []. split; [apply isuf_of_qsuf; apply qsuf_emit; reflexivity|apply sub_new_refl].
  - assert (Hpull : let r := (if Nat.ltb (fub_len (fe_q a)) (fub_cap (fe_q a)) then
                       match fe_up a with
                       | Some u =>
                           let '(u, r, w) := up_poll false u t w in
                           match r with
                           | UPItem c =>
                               match fub_try_push (fe_q a) c w with
                               | (PushOk f, w) => ({| fe_up := Some u; fe_q := f |}, true, w)
                               | (_, w) => ({| fe_up := Some u; fe_q := fe_q a |}, true, emit EStuck w)
                               end
                           | UPEnd => ({| fe_up := None; fe_q := fe_q a |}, false, emit EUpDrop w)
                           | _ => ({| fe_up := Some u; fe_q := fe_q a |}, false, w)
                           end
                       | None => (a, false, w)
                       end
                     else (a, false, w)) in
                    exists news, isuf w (snd r) news /\ sub_new [fe_q a] [fe_q (fst (fst r))] news).
    { cbv zeta. destruct (Nat.ltb (fub_len (fe_q a)) (fub_cap (fe_q a))); [|exists []; split; [apply isuf_refl|apply sub_new_refl]].
      destruct (fe_up a) as [u|]; [|exists []; split; [apply isuf_refl|apply sub_new_refl]].
      pose proof (up_poll_isuf false u t w) as Hu.
      destruct (up_poll false u t w) as [[u' r] w1]. cbn [fst snd] in Hu.
      destruct r as [c| | |e]; cbn [fst snd fe_q].
      - pose proof (fub_try_push_bal (fe_q a) c w1) as Hb.
        destruct (fub_try_push (fe_q a) c w1) as [[f| |] w2] eqn:E; cbn [fst snd fe_q].
        + destruct Hb as [_ Hb]. exists ([] ++ [cid c]). split.
          * eapply isuf_trans; [exact Hu|apply isuf_of_qsuf; exact Hb].
          * simpl. apply (push_single _ _ _ E).
        + exists ([] ++ [cid c]). split.
          * eapply isuf_trans; [exact Hu|]. apply isuf_of_qsuf. eapply qsuf_trans; [exact Hb|apply qsuf_emit; reflexivity].
          * simpl. eapply sub_new_weaken; [apply sub_new_refl|intros x []].
        + exists ([] ++ [cid c]). split.
          * eapply isuf_trans; [exact Hu|]. apply isuf_of_qsuf. eapply qsuf_trans; [exact Hb|apply qsuf_emit; reflexivity].
          * simpl. eapply sub_new_weaken; [apply sub_new_refl|intros x []].
      - exists []. split; auto. apply sub_new_refl.
      - exists []. split; [|apply sub_new_refl].
        pose proof (isuf_trans Hu (isuf_of_qsuf (qsuf_emit EUpDrop w1 eq_refl))) as T. exact T.
      - exists []. split; auto. apply sub_new_refl. }
    cbv zeta in Hpull.
    destruct (if Nat.ltb (fub_len (fe_q a)) (fub_cap (fe_q a)) then _ else _) as [[a1 pulled] w1].
    destruct Hpull as (n1 & A1 & S1). cbn [fst snd] in *.
    pose proof (fub_poll_next_addr P KFut (fe_q a1) t w1) as Hp.
    pose proof (isuf_of_BAL (fub_poll_next_bal P KFut (fe_q a1) t w1)) as Hb.
    destruct (fub_poll_next P KFut (fe_q a1) t w1) as [[f sp] w2]. cbn [fst snd] in *. destruct Hp as [Hpb Hps].
    assert (Hmid : isuf w w2 ([] ++ n1) /\ sub_new [fe_q a] [f] ([] ++ n1)).
    { split; [eapply isuf_trans; eauto|eapply sub_new_trans; [exact S1|apply keeps_single; auto]]. }
    simpl in Hmid. destruct Hmid as [M1 M2].
    assert (Hgo : exists news, isuf w (snd (fec_loop P n {| fe_up := fe_up a1; fe_q := f |} t w2)) news
                  /\ sub_new [fe_q a] [fe_q (fst (fst (fec_loop P n {| fe_up := fe_up a1; fe_q := f |} t w2)))] news).
    { destruct (IH {| fe_up := fe_up a1; fe_q := f |} w2) as (n2 & A2 & S2). cbn [fe_q] in S2.
      exists (n2 ++ n1). split; [eapply isuf_trans; eauto|eapply sub_new_trans; eauto]. }
    destruct sp as [| |tk c]; cbn [fst snd fe_q]; auto.
    + destruct pulled; auto. exists n1; auto.
    + destruct (fe_up a1); cbn [fst snd fe_q]; [|exists n1; auto]. destruct pulled; auto. exists n1; auto.
Qed.

(** join_all / try_join_all *)
Lemma fub_clear_addr f w : sub_new [f] [fst (fub_clear f w)] [].
Proof.
  unfold fub_clear. generalize (seq 0 (fub_cap f)). intros l. revert f w.
  induction l as [|i l IH]; intros f w; simpl; [apply sub_new_refl|].
  assert (Hr : sub_new [f] [fst (fub_remove f i w)] []).
  { unfold fub_remove. destruct (sm_get (tasks f) i); cbn [fst]; [|apply sub_new_refl].
    apply keeps_single; auto. simpl. apply sub_ids_remove. }
  destruct (fub_remove f i w) as [f1 w1]. cbn [fst snd] in *.
  pose proof (sub_new_trans Hr (IH f1 w1)) as T. exact T.
Qed.

Lemma poll_inner_addr k f t w : sub_new [f] [fst (fst (poll_inner P k f t w))] [].
Proof.
  pose proof (fub_poll_next_addr P k f t w) as H. unfold fub_poll_next in H.
  destruct (poll_inner P k f t w) as [[f1 pr] w1]. cbn [fst]. destruct pr; destruct H; apply keeps_single; auto.
Qed.

Lemma join_loop_addr n j t w : sub_new [j_q j] [j_q (fst (fst (join_loop P n j t w)))] [].
Proof.
  revert j w. induction n as [|n IH]; intros j w; cbn [join_loop]; cbn [fst]; [apply sub_new_refl|].
  pose proof (poll_inner_addr (if j_try j then KTry else KFut) (j_q j) t w) as H.
  destruct (poll_inner P (if j_try j then KTry else KFut) (j_q j) t w) as [[f pr] w1]. cbn [fst] in H.
  destruct pr as [| |i c r]; cbn [fst j_q]; auto.
  assert (Hgo : sub_new [j_q j] [j_q (fst (fst (join_loop P n {| j_try := j_try j; j_q := f; j_out := upd (j_out j) i (Some (TOut (cid c))) |} t w1)))] []).
  { pose proof (sub_new_trans H (IH {| j_try := j_try j; j_q := f; j_out := upd (j_out j) i (Some (TOut (cid c))) |} w1)) as T. exact T. }
  destruct r; try exact Hgo.
  pose proof (fub_clear_addr f (drop_outputs_from 0 (Some i) (tasks f) (j_out j) w1)) as Hc.
  destruct (fub_clear f (drop_outputs_from 0 (Some i) (tasks f) (j_out j) w1)) as [f2 w2]. cbn [fst snd j_q] in *.
  pose proof (sub_new_trans H Hc) as T. exact T.
Qed.


Lemma run_state_app' a b s0 : run_state P s0 (a ++ b) = run_state P (run_state P s0 a) b.
Proof. revert s0. induction a as [|o a IH]; intros s0; simpl; auto. Qed.

(** ** one operation *)
Lemma occ_list_get sl i c : nth_error sl i = Some (Occ c) -> In c (occ_list sl).
Proof.
  revert i. induction sl as [|[c0|n] sl IH]; intros [|i] H; simpl in *; try discriminate.
  - inversion H; subst. left; auto.
  - right. eapply IH; eauto.
  - eapply IH; eauto.
Qed.

Lemma at_addr_ids_gs gs b i id : at_addr gs b i id -> In id (ids_gs gs).
Proof.
  intros (g & Hin & _ & H). unfold ids_gs. apply in_flat_map. exists g. split; auto.
  unfold ids_fub, ids_sm. unfold sm_get in H.
  destruct (nth_error (slots (tasks g)) i) as [[c|n]|] eqn:Hn; try discriminate. simpl in H. inversion H; subst.
  apply in_map. eapply occ_list_get; eauto.
Qed.

Lemma ids_gs_single f : ids_gs [f] = ids_fub f. Proof. unfold ids_gs. simpl. apply app_nil_r. Qed.

Lemma at_addr_held k b i id : at_addr (coll_groups k) b i id -> In id (held_ids k).
Proof.
  intros H. apply at_addr_ids_gs in H.
  destruct k; unfold ids_gs in H; simpl in *; try contradiction; try (rewrite app_nil_r in H); auto.
Qed.

Definition ASTEP (k : coll) (o : op) (w : world) (k' : coll) (w' : world) : Prop :=
  exists l, log w' = l ++ log w
            /\ forall b i id, at_addr (coll_groups k') b i id ->
                 at_addr (coll_groups k) b i id \/ In id (taken_op k o k' l ++ acc l).

Lemma ASTEP_same k o w w' : (exists l, log w' = l ++ log w) -> ASTEP k o w k w'.
Proof. intros (l & H). exists l. split; auto. Qed.

Lemma ASTEP_poll k k' t i w w1 r news :
  isuf w w1 news -> sub_new (coll_groups k) (coll_groups k') news -> ASTEP k (OPoll t i) w k' (emit_ret r w1).
Proof.
  intros (l1 & H1 & I1) Hs. destruct (BAL_emit_ret [] w1 [] w1 r (BAL_refl [] w1)) as (l2 & H2 & _).
  exists (l2 ++ l1). rewrite H2, H1, app_assoc. split; auto.
  intros b j id Ha. destruct (Hs b j id Ha) as [|Hn]; auto. right. cbn [taken_op app].
  rewrite acc_app. apply in_or_app; right. apply I1; auto.
Qed.

Lemma ASTEP_push_ok k k' (o : op) c w w1 :
  (forall l, taken_op k o k' l = if rok l then [c] else []) ->
  qsuf w w1 -> sub_new (coll_groups k) (coll_groups k') [c] -> ASTEP k o w k' (emit (ERet RetOk) w1).
Proof.
  intros Ht (l & H & _) Hs. exists (ERet RetOk :: l). split; [simpl; rewrite H; reflexivity|].
  intros b i id Ha. destruct (Hs b i id Ha) as [|Hn]; auto. right. rewrite Ht.
  change (rok (ERet RetOk :: l)) with true. apply in_or_app; left; auto.
Qed.

Lemma do_push_astep (tr front : bool) c sc k w :
  cinv k w ->
  let o := if tr then (if front then OTryPushF c sc else OTryPush c sc) else (if front then OPushF c sc else OPush c sc) in
  ASTEP k o w (fst (do_push P tr front c sc k w)) (snd (do_push P tr front c sc k w)).
Proof.
  intros [Hw Hok]. cbv zeta.
  set (o := if tr then (if front then OTryPushF c sc else OTryPush c sc) else (if front then OPushF c sc else OPush c sc)).
  assert (Hto : forall k' l, taken_op k o k' l = if rok l then [c] else []) by (intros; unfold o; destruct tr, front; reflexivity).
  assert (Hq : forall w', qsuf w w' -> ASTEP k o w k w').
  { intros w' (l & H & _). apply ASTEP_same. eauto. }
  assert (Hres : forall w1, qsuf w w1 -> qsuf w (if tr then refused_result c w1 else bounded_push_result c false w1)).
  { intros w1 Q. destruct tr; (eapply qsuf_trans; [exact Q|]); [apply qsuf_refused|apply qsuf_bounded_panic]. }
  unfold do_push. destruct k as [| | |f|f|u|u|q|q|a|a|j]; cbn [fst snd]; try (apply Hq; apply qsuf_refl).
  - destruct front; cbn [fst snd]; [apply Hq; apply qsuf_refl|].
    pose proof (fub_try_push_bal f (mk_child c sc) w) as Hb.
    destruct (fub_try_push f (mk_child c sc) w) as [[f'| |] w1] eqn:E; cbn [fst snd].
    + destruct Hb as [_ Q]. apply (@ASTEP_push_ok _ _ o c); auto. apply (push_single _ _ _ E).
    + apply Hq. apply Hres. exact Hb.
    + apply Hq. apply Hres. exact Hb.
  - destruct front; cbn [fst snd]; [apply Hq; apply qsuf_refl|].
    pose proof (fub_try_push_bal f (mk_child c sc) w) as Hb.
    destruct (fub_try_push f (mk_child c sc) w) as [[f'| |] w1] eqn:E; cbn [fst snd].
    + destruct Hb as [_ Q]. apply (@ASTEP_push_ok _ _ o c); auto. apply (push_single _ _ _ E).
    + apply Hq. apply Hres. exact Hb.
    + apply Hq. apply Hres. exact Hb.
  - destruct (tr || front)%bool; cbn [fst snd]; [apply Hq; apply qsuf_refl|].
    simpl in Hw, Hok. destruct (@fu_push_bal P HP false u (mk_child c sc) w Hw Hok) as [_ Q].
    pose proof (fu_push_addr' false u (mk_child c sc) w) as Ha.
    destruct (fu_push P false u (mk_child c sc) w) as [u' w1]. cbn [fst snd] in *.
    apply (@ASTEP_push_ok _ _ o c); auto.
  - destruct (tr || front)%bool; cbn [fst snd]; [apply Hq; apply qsuf_refl|].
    simpl in Hw, Hok. destruct (@fu_push_bal P HP true u (mk_child c sc) w Hw Hok) as [_ Q].
    pose proof (fu_push_addr' true u (mk_child c sc) w) as Ha.
    destruct (fu_push P true u (mk_child c sc) w) as [u' w1]. cbn [fst snd] in *.
    apply (@ASTEP_push_ok _ _ o c); auto.
  - pose proof (fob_try_push_bal P front q (mk_child c sc) w) as Hb.
    pose proof (fob_try_push_addr front q (mk_child c sc) w) as Ha.
    destruct (fob_try_push P front q (mk_child c sc) w) as [[q'|] w1]; cbn [fst snd].
    + destruct Hb as [_ Q]. apply (@ASTEP_push_ok _ _ o c); auto.
    + apply Hq. apply Hres. exact Hb.
  - destruct tr; cbn [fst snd]; [apply Hq; apply qsuf_refl|].
    simpl in Hw, Hok. destruct (@fo_push_bal P HP front q (mk_child c sc) w Hw Hok) as [_ Q].
    unfold fo_push in *.
    pose proof (fu_push_addr' false (fu_inner q) (child_set_idx (mk_child c sc) (if front then wdec P (nout (fu_ord q)) else nin (fu_ord q))) w) as Ha.
    destruct (fu_push P false (fu_inner q) _ w) as [u' w1]. cbn [fst snd] in *.
    apply (@ASTEP_push_ok _ _ o c); auto.
Qed.

Lemma do_poll_astep t i k w : cinv k w -> ASTEP k (OPoll t i) w (fst (do_poll P t k w)) (snd (do_poll P t k w)).
Proof.
  intros [Hw Hok]. unfold do_poll.
  destruct k as [| | |f|f|u|u|q|q|a|a|j]; cbn [fst snd]; try (apply ASTEP_same; exists []; reflexivity).
  - pose proof (fub_poll_next_addr P KFut f t w) as Ha. pose proof (isuf_of_BAL (fub_poll_next_bal P KFut f t w)) as Hb.
    destruct (fub_poll_next P KFut f t w) as [[f' sp] w1]. cbn [fst snd] in *. destruct Ha as [A1 A2].
    apply (@ASTEP_poll _ _ _ _ _ _ _ []); auto. apply keeps_single; auto.
  - pose proof (mb_poll_loop_addr P (S (fub_len f)) f t w) as Ha.
    pose proof (isuf_of_BAL (mb_poll_loop_bal P (S (fub_len f)) f t w)) as Hb. unfold mb_poll_next.
    destruct (mb_poll_loop P (S (fub_len f)) f t w) as [[f' sp] w1]. cbn [fst snd] in *. destruct Ha as [A1 A2].
    apply (@ASTEP_poll _ _ _ _ _ _ _ []); auto. apply keeps_single; auto.
  - pose proof (fu_poll_next_addr false u t w) as Ha. pose proof (isuf_of_BAL (fu_poll_next_bal P false u t w)) as Hb.
    destruct (fu_poll_next P false u t w) as [[u' sp] w1]. cbn [fst snd] in *. apply (@ASTEP_poll _ _ _ _ _ _ _ []); auto.
  - pose proof (fu_poll_next_addr true u t w) as Ha. pose proof (isuf_of_BAL (fu_poll_next_bal P true u t w)) as Hb.
    destruct (fu_poll_next P true u t w) as [[u' sp] w1]. cbn [fst snd] in *. apply (@ASTEP_poll _ _ _ _ _ _ _ []); auto.
  - pose proof (fob_poll_next_addr KFut q t w) as Ha. pose proof (isuf_of_BAL (fob_poll_next_bal P KFut q t w)) as Hb.
    destruct (fob_poll_next P KFut q t w) as [[q' sp] w1]. cbn [fst snd] in *. apply (@ASTEP_poll _ _ _ _ _ _ _ []); auto.
  - pose proof (fo_poll_next_addr q t w) as Ha. pose proof (isuf_of_BAL (fo_poll_next_bal P q t w)) as Hb.
    destruct (fo_poll_next P q t w) as [[q' sp] w1]. cbn [fst snd] in *. apply (@ASTEP_poll _ _ _ _ _ _ _ []); auto.
  - destruct (adapter_poll_addr a t w) as (news & A1 & A2).
    destruct (adapter_poll P a t w) as [[a' r] w1]. cbn [fst snd] in *. apply (@ASTEP_poll _ _ _ _ _ _ _ news); auto.
  - destruct (fec_loop_addr (fec_fuel a) a t w) as (news & A1 & A2). unfold fec_poll.
    destruct (fec_loop P (fec_fuel a) a t w) as [[a' r] w1]. cbn [fst snd] in *. apply (@ASTEP_poll _ _ _ _ _ _ _ news); auto.
  - pose proof (join_loop_addr (S (fub_len (j_q j))) j t w) as Ha.
    pose proof (isuf_of_BAL (join_loop_bal P (S (fub_len (j_q j))) j t w)) as Hb. unfold join_poll.
    destruct (join_loop P (S (fub_len (j_q j))) j t w) as [[j' r] w1]. cbn [fst snd] in *.
    apply (@ASTEP_poll _ _ _ _ _ _ _ []); auto.
Qed.

Lemma step_core_astep k o w : cinv k w -> ASTEP k o w (fst (step_core P k o w)) (snd (step_core P k o w)).
Proof.
  intros Hc. pose proof Hc as [Hw Hok]. unfold step_core.
  destruct o as [ty p inits ups|c sc|c sc|c sc|c sc|t i|a| | | | ].
  - destruct k; cbn [fst snd]; try (apply ASTEP_same; exists []; reflexivity).
    simpl in Hw. destruct (@build_quiet P HP ty p inits ups w Hw) as (l & H & _).
    exists l. split; auto. intros b i id Ha. right. cbn [taken_op]. apply in_or_app; left. eapply at_addr_held; eauto.
  - apply (@do_push_astep false false c sc k w Hc).
  - apply (@do_push_astep false true c sc k w Hc).
  - apply (@do_push_astep true false c sc k w Hc).
  - apply (@do_push_astep true true c sc k w Hc).
  - apply do_poll_astep; auto.
  - cbn [fst snd]. apply ASTEP_same. destruct (qsuf_do_act None a w) as (l & H & _). eauto.
  - cbn [fst snd]. apply ASTEP_same. destruct (observe P k); [exists [EObs o]|exists []]; reflexivity.
  - cbn [fst snd]. apply ASTEP_same. exists []; reflexivity.
  - (* drop: nothing is held afterwards *)
    destruct (do_drop_step k w) as (l & H & _). exists l. split; auto.
    intros b i id Ha. exfalso. unfold do_drop in Ha. destruct k; cbn [fst coll_groups] in Ha; destruct Ha as (g & [] & _).
  - cbn [fst snd]. apply ASTEP_same. unfold cleanup. destruct (qsuf_cleanup_from (length (handles w)) 0 w) as (l & H & _). eauto.
Qed.

(** ** whole histories: a child that is held now and was not taken since an earlier moment was at
    the same address at that moment *)
Theorem child_never_moves_from s ops b i id :
  Inv s ->
  at_addr (coll_groups (st_coll (run_state P s ops))) b i id ->
  ~ In id (taken_in P s ops ++ pulled_in P s ops) ->
  at_addr (coll_groups (st_coll s)) b i id.
Proof.
  revert s. induction ops as [|o ops IH]; intros s Hs Ha Hn; simpl in *; auto.
  unfold taken_in, pulled_in in *. simpl in Hn. rewrite !flat_map_app in Hn.
  destruct (is_dead (st_coll s)) eqn:Hd.
  - assert (Hfix : fst (step_op P s o) = s) by (unfold step_op; rewrite Hd; reflexivity).
    rewrite Hfix in *. simpl in Hn. apply IH; auto.
  - simpl in Hn. rewrite !app_nil_r in Hn.
    set (s' := fst (step_op P s o)) in *.
    assert (Ha' : at_addr (coll_groups (st_coll s')) b i id).
    { apply IH; [apply step_inv; auto|exact Ha|]. intros Hin. apply Hn.
      apply in_app_or in Hin as [Hin|Hin]; apply in_or_app; [left|right]; apply in_or_app; right; exact Hin. }
    assert (Hstep : at_addr (coll_groups (st_coll s)) b i id
                    \/ In id (taken_op (st_coll s) o (st_coll s') (log (st_world s')) ++ acc (log (st_world s')))).
    { destruct Hs as [Hw Hok]. revert Ha'. unfold s', step_op. rewrite Hd.
      assert (Hc : cinv (st_coll s) (begin_op (op_inj o) (st_world s))) by (split; auto; apply winv_begin_op; auto).
      destruct (@step_core_astep (st_coll s) o _ Hc) as (l & H & Hst).
      destruct (step_core P (st_coll s) o (begin_op (op_inj o) (st_world s))) as [k' w']. cbn [fst snd st_coll st_world] in *.
      simpl in H. rewrite app_nil_r in H. rewrite H. apply Hst. }
    destruct Hstep as [|Hin]; auto. exfalso. apply Hn.
    apply in_app_or in Hin as [Hin|Hin]; apply in_or_app; [left|right]; apply in_or_app; left; exact Hin.
Qed.

Theorem child_never_moves ops1 ops2 b i id :
  at_addr (coll_groups (st_coll (reach P (ops1 ++ ops2)))) b i id ->
  ~ In id (taken_in P (reach P ops1) ops2 ++ pulled_in P (reach P ops1) ops2) ->
  at_addr (coll_groups (st_coll (reach P ops1))) b i id.
Proof.
  intros Ha Hn. apply (@child_never_moves_from (reach P ops1) ops2 b i id); auto.
  - apply reachable_Inv; auto.
  - unfold reach in *. rewrite <- run_state_app'. exact Ha.
Qed.

End WithParams.
