(** * Base: imports and small list utilities shared by the whole development *)
From Coq Require Export List Arith ZArith NArith Bool Lia PeanoNat.
Export ListNotations.

Set Implicit Arguments.

(** [upd l i x]: replace position [i] of [l] (no-op when out of range) *)
Fixpoint upd {A} (l : list A) (i : nat) (x : A) : list A :=
  match l, i with
  | [], _ => []
  | _ :: t, O => x :: t
  | h :: t, S i' => h :: upd t i' x
  end.

(** remove position [i] (no-op when out of range) *)
Fixpoint remove_nth {A} (l : list A) (i : nat) : list A :=
  match l, i with
  | [], _ => []
  | _ :: t, O => t
  | h :: t, S i' => h :: remove_nth t i'
  end.

Definition last_opt {A} (l : list A) : option A :=
  match rev l with [] => None | x :: _ => Some x end.

Fixpoint lookup_nat {A} (k : nat) (l : list (nat * A)) : option A :=
  match l with
  | [] => None
  | (k', v) :: t => if Nat.eqb k k' then Some v else lookup_nat k t
  end.

Definition option_default {A} (d : A) (o : option A) : A :=
  match o with Some x => x | None => d end.

(** result of a constructor that may panic *)
Inductive new_res (A : Type) := NewOk (x : A) | NewPanic.
Arguments NewOk {A} x.
Arguments NewPanic {A}.
