(** * ObserveProofs: what len / is_empty / capacity / size_hint / is_terminated report (C15, C17)

    [observe P k] is the model of the observer methods.  In every reachable state of every
    history they report the state: [len] is the number of futures the collection holds plus (ordered
    queues) the outputs parked for their turn, [is_empty] and [is_terminated] say exactly whether
    that number is zero, [capacity] is never below [len], the collections' [size_hint] is exact,
    merges report (0, None), for_each_concurrent is terminated exactly when its upstream is gone
    and nothing runs.  And a terminated stream keeps answering None. *)
From FB Require Import Base Syntax World SlotMap Fub Unbounded Ordered Adapters Step Tactics SlotMapProofs WorldProofs FubProofs
  UnboundedProofs OrderedProofs AdaptersProofs StepProofs Reach FobOrder LedgerProofs TokenLedger MergeLedger.
From Coq Require Import Permutation.

Lemma fold_len_total gs a : fold_left (fun a g => a + fub_len g) gs a = a + total gs.
Proof. revert a. induction gs as [|g gs IH]; intros a; simpl; [lia|]. rewrite IH. lia. Qed.

Lemma fu_len_sum_total u : fu_len_sum u = total (groups u).
Proof. unfold fu_len_sum. rewrite fold_len_total. reflexivity. Qed.

Lemma all_empty_total gs : forallb (fun g => Nat.eqb (fub_len g) 0) gs = Nat.eqb (total gs) 0.
Proof.
  induction gs as [|g gs IH]; simpl; auto. rewrite IH.
  destruct (Nat.eqb_spec (fub_len g) 0) as [->|Hne]; simpl; auto.
  destruct (Nat.eqb_spec (fub_len g + total gs) 0); auto. lia.
Qed.

Lemma ids_fub_length f : sm_wf (tasks f) -> length (ids_fub f) = fub_len f.
Proof.
  intros Hwf. pose proof (ids_gs_length [f] (Forall_cons _ Hwf (Forall_nil _))) as H.
  simpl in H. rewrite app_nil_r in H. lia.
Qed.

Section WithParams.
Variable P : params.
Hypothesis HP : params_ok P.

(** futures held + outputs parked for their turn *)
Definition in_crate (k : coll) : nat := length (held_ids k) + length (parked_of k).

Definition exact_obs (n : nat) (cap : option nat) (ob : obsrec) : Prop :=
  ob_len ob = Some n /\ ob_empty ob = Some (Nat.eqb n 0) /\ ob_cap ob = cap
  /\ ob_hint ob = Some (N.of_nat n, Some (N.of_nat n)) /\ ob_term ob = Some (Nat.eqb n 0).

Definition obs_ok (k : coll) (ob : obsrec) : Prop :=
  let n := in_crate k in
  match k with
  | CFub f => exact_obs n (Some (fub_cap f)) ob /\ n <= fub_cap f
  | CFu u => exact_obs n (Some (fu_capacity u)) ob /\ n <= fu_capacity u
  | CFob q => exact_obs n None ob
  | CFo q => exact_obs n None ob
  | CMu u => ob_len ob = Some n /\ ob_empty ob = Some (Nat.eqb n 0) /\ ob_hint ob = Some (0%N, None)
  | CMb _ => ob_hint ob = Some (0%N, None)
  | CFec a => ob_term ob = Some (match fe_up a with None => Nat.eqb n 0 | Some _ => false end)
  | _ => True
  end.

Lemma fu_capacity_ge u : fu_ok false u -> total (groups u) <= fu_capacity u.
Proof.
  intros [O1 O2 O3]. unfold fu_capacity. destruct (groups u) as [|g [|g2 gs]] eqn:Hg; simpl.
  - lia.
  - rewrite Nat.add_0_r. inversion O1; subst. apply sm_filled_le; auto.
  - assert (Hr := O2 eq_refl). simpl in Hr.
    destruct (last_opt (g :: g2 :: gs)) as [l|] eqn:Hl; [lia|].
    exfalso. unfold last_opt in Hl. destruct (rev (g :: g2 :: gs)) eqn:E; [|discriminate].
    apply (f_equal (@length _)) in E. rewrite rev_length in E. simpl in E. lia.
Qed.

Theorem observers_report_the_state ops :
  match observe P (st_coll (reach P ops)) with
  | Some ob => obs_ok (st_coll (reach P ops)) ob
  | None => True
  end.
Proof.
  destruct (@reachable_Inv P HP ops) as [Hw Hok].
  destruct (st_coll (reach P ops)) as [| | |f|f|u|u|q|q|a|a|j] eqn:Hk; simpl in Hok; cbn [observe obs_ok]; auto.
  - (* FuturesUnorderedBounded *)
    unfold in_crate. cbn [held_ids parked_of length]. rewrite Nat.add_0_r, ids_fub_length by auto.
    split; [repeat split|apply sm_filled_le; auto].
  - (* FuturesUnordered *)
    unfold in_crate. cbn [held_ids parked_of length]. rewrite Nat.add_0_r, ids_gs_length by apply Hok.
    rewrite <- (fo_rem Hok eq_refl). split; [repeat split|].
    rewrite (fo_rem Hok eq_refl). apply fu_capacity_ge; auto.
  - (* MergeUnbounded *)
    unfold in_crate. cbn [held_ids parked_of length]. rewrite Nat.add_0_r, ids_gs_length by apply Hok.
    rewrite fu_len_sum_total, all_empty_total. repeat split.
  - (* FuturesOrderedBounded *)
    unfold in_crate. cbn [held_ids parked_of]. unfold parked. rewrite map_length, ids_fub_length by auto.
    unfold exact_obs, fob_len. cbn [ob_len ob_empty ob_cap ob_hint ob_term]. repeat split; f_equal.
    + destruct (fub_len (fo_inner q)), (length (oheap (fo_ord q))); reflexivity.
    + destruct (fub_len (fo_inner q)), (length (oheap (fo_ord q))); reflexivity.
  - (* FuturesOrdered *)
    unfold in_crate. cbn [held_ids parked_of]. unfold parked. rewrite map_length, ids_gs_length by apply Hok.
    rewrite <- (fo_rem Hok eq_refl).
    unfold exact_obs, fo_len. cbn [ob_len ob_empty ob_cap ob_hint ob_term]. repeat split; f_equal.
    + destruct (rem (fu_inner q)), (length (oheap (fu_ord q))); reflexivity.
    + destruct (rem (fu_inner q)), (length (oheap (fu_ord q))); reflexivity.
  - (* for_each_concurrent *)
    unfold in_crate. cbn [held_ids parked_of length]. destruct Hok as [Hwf _].
    rewrite Nat.add_0_r, ids_fub_length by auto. reflexivity.
Qed.

(** *** a terminated stream keeps answering None *)
Theorem terminated_stream_answers_none ops t i :
  let k := st_coll (reach P ops) in
  (match k with CFub _ | CFu _ | CFob _ | CFo _ | CMu _ => True | _ => False end) ->
  in_crate k = 0 ->
  let '(k', w') := do_poll P t k (begin_op i (st_world (reach P ops))) in
  in_crate k' = 0 /\ exists l, log w' = ERet RetNone :: l.
Proof.
  cbv zeta. destruct (@reachable_Inv P HP ops) as [Hw Hok]. intros Hty Hz.
  assert (Hw' : winv (cnt (coll_blks (st_coll (reach P ops)))) None (begin_op i (st_world (reach P ops))))
    by (apply winv_begin_op; auto).
  destruct (st_coll (reach P ops)) as [| | |f|f|u|u|q|q|a|a|j] eqn:Hk; try contradiction;
    simpl in Hok, Hw'; unfold in_crate in *; cbn [held_ids parked_of length do_poll] in *.
  - (* FUB *)
    rewrite Nat.add_0_r, ids_fub_length in Hz by auto.
    pose proof (@fub_poll_next_spec P _ KFut f t _ Hw' (fub_ok_single _ Hok)) as H.
    destruct (fub_poll_next P KFut f t _) as [[f' sp] w1]. destruct H as (_ & _ & _ & _ & H).
    destruct sp as [| |tk c].
    + destruct H as [H _]. congruence.
    + destruct H as (_ & -> & ->). cbn [held_ids parked_of length]. rewrite Nat.add_0_r, ids_fub_length by auto.
      split; auto. eexists. reflexivity.
    + destruct H as [_ H]. unfold fub_len in Hz. lia.
  - (* FU *)
    rewrite Nat.add_0_r, ids_gs_length in Hz by apply Hok.
    pose proof (@fu_poll_next_spec P false u t _ Hw' Hok) as H.
    destruct (fu_poll_next P false u t _) as [[u' sp] w1]. destruct H as (_ & Hok' & (L1 & L2 & L3)).
    unfold loop_post in *. rewrite Hz in *.
    cbn [held_ids parked_of length]. rewrite Nat.add_0_r, ids_gs_length by apply Hok'.
    destruct sp as [| |tk c].
    + lia.
    + split; [lia|]. eexists. reflexivity.
    + destruct (L2 eq_refl). lia.
  - (* MU *)
    rewrite Nat.add_0_r, ids_gs_length in Hz by apply Hok.
    pose proof (@fu_poll_next_spec P true u t _ Hw' Hok) as H.
    destruct (fu_poll_next P true u t _) as [[u' sp] w1] eqn:Ep. destruct H as (_ & Hok' & (L1 & L2 & L3)).
    unfold loop_post in *. rewrite Hz in *.
    cbn [held_ids parked_of length]. rewrite Nat.add_0_r, ids_gs_length by apply Hok'.
    destruct sp as [| |tk c].
    + lia.
    + split; [lia|]. eexists. reflexivity.
    + (* an item needs a live source (MergeLedger: the yielded item's source was held) *)
      exfalso. pose proof (fu_poll_seq P u t (begin_op i (st_world (reach P ops)))) as Hy.
      rewrite Ep in Hy. destruct Hy as [_ (id & kk & _ & (R & gone & Hperm & _))].
      apply Permutation_length in Hperm. rewrite <- (map_length fst), map_fst_hs_gs, ids_gs_length in Hperm by apply Hok.
      simpl in Hperm. lia.
  - (* FOB *)
    unfold parked in *. rewrite map_length, ids_fub_length in Hz by auto.
    pose proof (@fob_poll_next_spec P _ KFut q t _ Hw' (fub_ok_single _ Hok)) as H.
    destruct (fob_poll_next P KFut q t _) as [[q' sp] w1]. destruct H as (_ & [Hwf' _] & _ & _ & H).
    cbn [held_ids parked_of]. unfold parked. rewrite map_length, ids_fub_length by auto.
    unfold fob_len in *. destruct sp as [| |tk c].
    + destruct H as [H1 H2]. lia.
    + destruct H as [H1 H2]. split; [lia|]. eexists. reflexivity.
    + destruct H as [H1 H2]. lia.
  - (* FO *)
    unfold parked in *. rewrite map_length, ids_gs_length in Hz by apply Hok.
    pose proof (@fo_poll_next_spec P q t _ Hw' Hok) as H.
    destruct (fo_poll_next P q t _) as [[q' sp] w1]. destruct H as (_ & Hok' & H).
    cbn [held_ids parked_of]. unfold parked. rewrite map_length, ids_gs_length by apply Hok'.
    unfold fo_len in *. rewrite (fo_rem Hok eq_refl), (fo_rem Hok' eq_refl) in *.
    destruct sp as [| |tk c].
    + destruct H as [H1 H2]. lia.
    + destruct H as [H1 H2]. split; [lia|]. eexists. reflexivity.
    + destruct H as [H1 H2]. lia.
Qed.

End WithParams.
