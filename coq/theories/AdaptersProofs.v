(** * AdaptersProofs: the buffered adapters, for_each_concurrent and join_all / try_join_all
      preserve the structural invariants; their fuelled loops never run out of fuel; the
      fill loop never pushes into a full queue; at most [n] pulled items are un-yielded *)
From FB Require Import Base Syntax World SlotMap Fub Unbounded Ordered Adapters Tactics
  SlotMapProofs WorldProofs FubProofs UnboundedProofs OrderedProofs.
Set Implicit Arguments.

Definition q_fub (q : queue) : fub := match q with QU f => f | QO o => fo_inner o end.
Definition q_ok (own : nat -> nat) (q : queue) : Prop := fub_ok own (q_fub q).

Lemma q_running_le_len q : q_running q <= q_len q.
Proof. destruct q; simpl; unfold fob_len; lia. Qed.

Lemma q_cap_fub q : q_cap q = fub_cap (q_fub q).
Proof. destruct q; reflexivity. Qed.

Lemma q_running_fub q : q_running q = fub_len (q_fub q).
Proof. destruct q; reflexivity. Qed.

Lemma winv_up_poll own cur try u t w :
  us_ended u = false -> winv own cur w -> winv own cur (snd (up_poll try u t w)).
Proof.
  intros He Hw. unfold up_poll. rewrite He. simpl.
  destruct (us_steps u) as [|[s|a| |] rest]; simpl; try (apply winv_emit; auto).
  - apply winv_do_acts; [apply winv_emit; auto | exact I].
  - destruct try; simpl; apply winv_emit; auto.
Qed.

(** the upstream is fused: once it answered None it is dropped and never polled again *)
Definition up_live (o : option upstream) : Prop :=
  match o with Some u => us_ended u = false | None => True end.

Lemma up_poll_fused try u t w :
  us_ended u = false ->
  let '(u', r, _) := up_poll try u t w in
  match r with UPEnd => True | _ => us_ended u' = false end.
Proof.
  intros He. unfold up_poll. rewrite He.
  destruct (us_steps u) as [|[s|a| |] rest]; simpl; auto. destruct try; simpl; auto.
Qed.

Section WithParams.
Variable P : params.
Hypothesis HP : params_ok P.

Lemma q_push_spec own q c w :
  winv own None w -> q_ok own q -> q_len q < q_cap q ->
  let '(q', w') := q_push P q c w in
  winv own None w' /\ q_ok own q' /\ blk (q_fub q') = blk (q_fub q) /\ q_cap q' = q_cap q
  /\ q_len q' = S (q_len q).
Proof.
  intros Hw Hok Hlt. pose proof (q_running_le_len q) as Hrl.
  destruct q as [f|o]; simpl in *.
  - pose proof (@fub_try_push_spec own None f c w Hw Hok) as H.
    destruct (fub_try_push f c w) as [[f'| |] w1].
    + destruct H as (H1 & H2 & H3 & H4 & H5 & H6). simpl. unfold fub_cap. splits; auto.
    + destruct H as [_ H]. lia.
    + contradiction.
  - pose proof (@fob_try_push_spec P own None false o c w Hw Hok) as H.
    destruct (fob_try_push P false o c w) as [[o'|] w1].
    + destruct H as (H1 & H2 & H3 & H4 & H5 & H6). simpl. unfold fub_cap. splits; auto.
    + destruct H as [_ H]. unfold fob_len in *. lia.
Qed.

Lemma q_poll_spec own k q t w :
  winv own None w -> q_ok own q ->
  let '(q', sp, w') := q_poll P k q t w in
  winv own None w' /\ q_ok own q' /\ blk (q_fub q') = blk (q_fub q) /\ q_cap q' = q_cap q
  /\ match sp with
     | SItem _ _ => q_len q' = pred (q_len q) /\ 0 < q_len q
     | SNone => q_running q' = 0 /\ q_len q' = q_len q
     | SPending => q_running q' <> 0 /\ q_len q' = q_len q
     end.
Proof.
  intros Hw Hok. destruct q as [f|o]; simpl in *.
  - pose proof (@fub_poll_next_spec P own k f t w Hw Hok) as H.
    destruct (fub_poll_next P k f t w) as [[f' sp] w1]. destruct H as (A & B & C & D & F).
    simpl. unfold fub_cap, fub_len in *. splits; auto.
    destruct sp; auto; [destruct F; split; lia | destruct F as (F1 & -> & _); auto].
  - pose proof (@fob_poll_next_spec P own k o t w Hw Hok) as H.
    destruct (fob_poll_next P k o t w) as [[o' sp] w1]. destruct H as (A & B & C & D & F).
    simpl. unfold fub_cap. splits; auto.
Qed.

(** the fill loop: fuel suffices, the guard protects every push, the bound is kept *)
Lemma fill_spec own n a t w :
  winv own None w -> q_ok own (ad_q a) -> q_len (ad_q a) <= q_cap (ad_q a) ->
  q_cap (ad_q a) - q_len (ad_q a) < n -> up_live (ad_up a) ->
  let '(a', e, w') := fill P n a t w in
  winv own None w' /\ q_ok own (ad_q a') /\ blk (q_fub (ad_q a')) = blk (q_fub (ad_q a))
  /\ q_cap (ad_q a') = q_cap (ad_q a) /\ q_len (ad_q a') <= q_cap (ad_q a') /\ ad_try a' = ad_try a
  /\ q_len (ad_q a) <= q_len (ad_q a') /\ up_live (ad_up a').
Proof.
  revert a w. induction n as [|n IH]; intros a w Hw Hok Hle Hfuel Hul; [lia|]. cbn [fill].
  destruct (Nat.ltb_spec (q_len (ad_q a)) (q_cap (ad_q a))) as [Hlt|Hge].
  - destruct (ad_up a) as [u|] eqn:Hu.
    + simpl in Hul.
      pose proof (@winv_up_poll own None (ad_try a) u t w Hul Hw) as Hup.
      pose proof (@up_poll_fused (ad_try a) u t w Hul) as Hfu.
      destruct (up_poll (ad_try a) u t w) as [[u' r] w1]. simpl in Hup.
      destruct r as [c| | |e].
      * pose proof (@q_push_spec own (ad_q a) c w1 Hup Hok Hlt) as H.
        destruct (q_push P (ad_q a) c w1) as [q' w2]. destruct H as (A & B & C & D & E).
        specialize (IH {| ad_try := ad_try a; ad_up := Some u'; ad_q := q' |} w2). simpl in IH.
        assert (F1 : q_len q' <= q_cap q') by lia.
        assert (F2 : q_cap q' - q_len q' < n) by lia.
        specialize (IH A B F1 F2 Hfu).
        destruct (fill P n {| ad_try := ad_try a; ad_up := Some u'; ad_q := q' |} t w2) as [[a' e] w'].
        destruct IH as (I1 & I2 & I3 & I4 & I5 & I6 & I7 & I8). splits; auto; try congruence; lia.
      * simpl. splits; auto.
      * simpl. splits; auto. apply winv_emit; auto.
      * simpl. splits; auto.
    + splits; auto. rewrite Hu. exact I.
  - splits; auto.
Qed.

Definition ad_ok (own : nat -> nat) (a : adapter) : Prop :=
  q_ok own (ad_q a) /\ q_len (ad_q a) <= q_cap (ad_q a) /\ up_live (ad_up a).

Lemma adapter_poll_spec own a t w :
  winv own None w -> ad_ok own a ->
  let '(a', r, w') := adapter_poll P a t w in
  winv own None w' /\ ad_ok own a' /\ blk (q_fub (ad_q a')) = blk (q_fub (ad_q a))
  /\ q_cap (ad_q a') = q_cap (ad_q a) /\ ad_try a' = ad_try a.
Proof.
  intros Hw (Hok & Hle & Hul). unfold adapter_poll.
  pose proof (@fill_spec own (S (q_cap (ad_q a))) a t w Hw Hok Hle) as H.
  destruct (fill P (S (q_cap (ad_q a))) a t w) as [[a1 e] w1].
  destruct H as (A & B & C & D & E & F & G & U); [lia|auto|].
  destruct e as [tk|].
  - splits; auto. unfold ad_ok. splits; auto.
  - pose proof (@q_poll_spec own (ad_kind a1) (ad_q a1) t w1 A B) as H.
    destruct (q_poll P (ad_kind a1) (ad_q a1) t w1) as [[q sp] w2].
    destruct H as (A2 & B2 & C2 & D2 & F2).
    assert (Hle2 : q_len q <= q_cap q) by (destruct sp; lia).
    destruct sp; simpl; [| destruct (ad_up a1) eqn:Hu1 |]; simpl; splits; auto; unfold ad_ok; simpl;
      try rewrite Hu1; splits; auto; try congruence.
Qed.

(** termination is exact: None only when upstream is gone and nothing is running; Pending only
    while upstream is still there or something is running *)
Lemma adapter_poll_termination own a t w :
  winv own None w -> ad_ok own a ->
  let '(a', r, w') := adapter_poll P a t w in
  match r with
  | RetNone => ad_up a' = None /\ q_running (ad_q a') = 0
  | RetPending => ad_up a' <> None \/ q_running (ad_q a') <> 0
  | _ => True
  end.
Proof.
  intros Hw (Hok & Hle & Hul). unfold adapter_poll.
  pose proof (@fill_spec own (S (q_cap (ad_q a))) a t w Hw Hok Hle) as H.
  destruct (fill P (S (q_cap (ad_q a))) a t w) as [[a1 e] w1].
  destruct H as (A & B & C & D & E & F & G & U); [lia|auto|].
  destruct e as [tk|]; auto.
  pose proof (@q_poll_spec own (ad_kind a1) (ad_q a1) t w1 A B) as H.
  destruct (q_poll P (ad_kind a1) (ad_q a1) t w1) as [[q sp] w2].
  destruct H as (A2 & B2 & C2 & D2 & F2).
  destruct sp; simpl; auto.
  - right. apply F2.
  - destruct (ad_up a1) eqn:Hu; simpl.
    + left. discriminate.
    + split; auto. apply F2.
Qed.

(** an upstream error leaves the poll at once as an item, the queue is not touched by it *)
Lemma adapter_error_forwarded a t w :
  let '(a1, e, w1) := fill P (S (q_cap (ad_q a))) a t w in
  match e with Some tk => adapter_poll P a t w = (a1, RetItem tk, w1) | None => True end.
Proof.
  unfold adapter_poll. destruct (fill P (S (q_cap (ad_q a))) a t w) as [[a1 e] w1]. destruct e; auto.
Qed.

(** ** for_each_concurrent *)
Definition fec_mu (a : fec) : nat :=
  match fe_up a with
  | Some u => 2 * length (us_steps u) + fub_len (fe_q a)
  | None => fub_len (fe_q a)
  end.

Lemma up_poll_steps try u t w :
  let '(u', r, _) := up_poll try u t w in
  length (us_steps u') <= length (us_steps u)
  /\ match r with UPItem _ => S (length (us_steps u')) = length (us_steps u) | _ => True end.
Proof.
  unfold up_poll. destruct (us_ended u); simpl; auto.
  destruct (us_steps u) as [|[s|a| |] rest] eqn:E; simpl; try rewrite E; simpl; auto.
  destruct try; simpl; auto.
Qed.

Lemma fec_loop_spec own n a t w :
  winv own None w -> fub_ok own (fe_q a) -> fec_mu a < n -> up_live (fe_up a) ->
  let '(a', r, w') := fec_loop P n a t w in
  winv own None w' /\ fub_ok own (fe_q a') /\ blk (fe_q a') = blk (fe_q a)
  /\ sm_cap (tasks (fe_q a')) = sm_cap (tasks (fe_q a)) /\ up_live (fe_up a').
Proof.
  revert a w. induction n as [|n IH]; intros a w Hw Hok Hmu Hul; [lia|]. cbn [fec_loop].
  (* the pull half *)
  assert (Hpull : let '(a1, pulled, w1) :=
                    (if Nat.ltb (fub_len (fe_q a)) (fub_cap (fe_q a)) then
                       match fe_up a with
                       | Some u =>
                           let '(u, r, w) := up_poll false u t w in
                           match r with
                           | UPItem c =>
                               match fub_try_push (fe_q a) c w with
                               | (PushOk f, w) => ({| fe_up := Some u; fe_q := f |}, true, w)
                               | (_, w) => ({| fe_up := Some u; fe_q := fe_q a |}, true, emit EStuck w)
                               end
                           | UPEnd => ({| fe_up := None; fe_q := fe_q a |}, false, emit EUpDrop w)
                           | _ => ({| fe_up := Some u; fe_q := fe_q a |}, false, w)
                           end
                       | None => (a, false, w)
                       end
                     else (a, false, w)) in
                  winv own None w1 /\ fub_ok own (fe_q a1) /\ blk (fe_q a1) = blk (fe_q a)
                  /\ sm_cap (tasks (fe_q a1)) = sm_cap (tasks (fe_q a))
                  /\ (if pulled then S (fec_mu a1) <= fec_mu a else fec_mu a1 <= fec_mu a)
                  /\ up_live (fe_up a1)).
  { destruct (Nat.ltb_spec (fub_len (fe_q a)) (fub_cap (fe_q a))) as [Hlt|Hge]; [|splits; auto].
    destruct (fe_up a) as [u|] eqn:Hu; [|splits; auto; try (unfold fec_mu; rewrite Hu; lia); try (rewrite Hu; exact I)].
    simpl in Hul.
    pose proof (@winv_up_poll own None false u t w Hul Hw) as Hup.
    pose proof (up_poll_steps false u t w) as Hst.
    pose proof (@up_poll_fused false u t w Hul) as Hfu.
    destruct (up_poll false u t w) as [[u' r] w1]. simpl in Hup. destruct Hst as [S1 S2].
    destruct r as [c| | |e].
    - pose proof (@fub_try_push_spec own None (fe_q a) c w1 Hup Hok) as H.
      destruct (fub_try_push (fe_q a) c w1) as [[f| |] w2].
      + destruct H as (H1 & H2 & H3 & H4 & H5 & H6). simpl. splits; auto.
        unfold fec_mu; simpl. rewrite Hu. lia.
      + destruct H as [_ H]. lia.
      + contradiction.
    - simpl. splits; auto. unfold fec_mu; simpl. rewrite Hu. lia.
    - simpl. splits; auto. apply winv_emit; auto. unfold fec_mu; simpl. rewrite Hu. lia.
    - simpl. splits; auto. unfold fec_mu; simpl. rewrite Hu. lia. }
  destruct (if Nat.ltb (fub_len (fe_q a)) (fub_cap (fe_q a)) then _ else _) as [[a1 pulled] w1].
  destruct Hpull as (A & B & C & D & E & U).
  pose proof (@fub_poll_next_spec P own KFut (fe_q a1) t w1 A B) as H.
  destruct (fub_poll_next P KFut (fe_q a1) t w1) as [[f sp] w2]. destruct H as (A2 & B2 & C2 & D2 & F2).
  assert (Hgo : fec_mu {| fe_up := fe_up a1; fe_q := f |} < n ->
                let '(a', r, w') := fec_loop P n {| fe_up := fe_up a1; fe_q := f |} t w2 in
                winv own None w' /\ fub_ok own (fe_q a') /\ blk (fe_q a') = blk (fe_q a)
                /\ sm_cap (tasks (fe_q a')) = sm_cap (tasks (fe_q a)) /\ up_live (fe_up a')).
  { intros Hlt. specialize (IH {| fe_up := fe_up a1; fe_q := f |} w2). simpl in IH.
    specialize (IH A2 B2 Hlt U).
    destruct (fec_loop P n {| fe_up := fe_up a1; fe_q := f |} t w2) as [[a' r] w'].
    destruct IH as (I1 & I2 & I3 & I4 & I5). splits; auto; congruence. }
  assert (Hmu_eq : forall f', fub_len f' = fub_len (fe_q a1) ->
                    fec_mu {| fe_up := fe_up a1; fe_q := f' |} = fec_mu a1).
  { intros f' Hf. unfold fec_mu; simpl. destruct (fe_up a1); lia. }
  assert (Hdone : winv own None w2 /\ fub_ok own f /\ blk f = blk (fe_q a)
                  /\ sm_cap (tasks f) = sm_cap (tasks (fe_q a)) /\ up_live (fe_up a1)) by (splits; auto; congruence).
  destruct sp as [| |tk c]; simpl.
  - destruct F2 as [F3 F4]. destruct pulled; [|exact Hdone].
    apply Hgo. rewrite Hmu_eq by (unfold fub_len; auto). lia.
  - destruct F2 as (F3 & -> & ->).
    destruct (fe_up a1) eqn:Hu1; [|exact Hdone].
    destruct pulled; [|exact Hdone].
    apply Hgo. unfold fec_mu in *; simpl. rewrite Hu1 in *. lia.
  - destruct F2 as [F3 F4]. apply Hgo.
    unfold fec_mu in *; simpl. unfold fub_len in *. destruct (fe_up a1); destruct pulled; lia.
Qed.

Lemma fec_poll_spec own a t w :
  winv own None w -> fub_ok own (fe_q a) -> up_live (fe_up a) ->
  let '(a', r, w') := fec_poll P a t w in
  winv own None w' /\ fub_ok own (fe_q a') /\ blk (fe_q a') = blk (fe_q a)
  /\ sm_cap (tasks (fe_q a')) = sm_cap (tasks (fe_q a)) /\ up_live (fe_up a').
Proof.
  intros Hw Hok Hul. unfold fec_poll. apply fec_loop_spec; auto.
  unfold fec_mu, fec_fuel. destruct (fe_up a); lia.
Qed.

(** ** join_all / try_join_all *)
Lemma winv_drop_outputs own cur i skip m out w :
  winv own cur w -> winv own cur (drop_outputs_from i skip m out w).
Proof.
  revert i w. induction out as [|o rest IH]; intros i w Hw; simpl; auto.
  apply IH. destruct (match skip with Some s => Nat.eqb s i | None => false end); auto.
  destruct (sm_get m i); auto. apply winv_emit; auto.
Qed.

Lemma fub_clear_spec own cur f w :
  winv own cur w -> fub_ok own f ->
  let '(f', w') := fub_clear f w in
  winv own cur w' /\ fub_ok own f' /\ blk f' = blk f /\ sm_cap (tasks f') = sm_cap (tasks f)
  /\ (forall i, sm_get (tasks f') i = None).
Proof.
  intros Hw Hok. unfold fub_clear.
  assert (Hgen : forall l f0 w0, winv own cur w0 -> fub_ok own f0 ->
            let '(f', w') := fold_left (fun fw i => fub_remove (fst fw) i (snd fw)) l (f0, w0) in
            winv own cur w' /\ fub_ok own f' /\ blk f' = blk f0 /\ sm_cap (tasks f') = sm_cap (tasks f0)
            /\ (forall i, sm_get (tasks f') i = None <-> (In i l \/ sm_get (tasks f0) i = None))).
  { induction l as [|j l IHl]; intros f0 w0 Hw0 Hok0; simpl.
    - splits; auto. intros i; tauto.
    - pose proof (@fub_remove_spec own cur f0 j w0 Hw0 Hok0) as H.
      destruct (fub_remove f0 j w0) as [f1 w1]. destruct H as (A & B & C & D & E).
      specialize (IHl f1 w1 A B).
      destruct (fold_left (fun fw i => fub_remove (fst fw) i (snd fw)) l (f1, w1)) as [f' w'].
      destruct IHl as (I1 & I2 & I3 & I4 & I5). splits; auto; try congruence.
      intros i. rewrite I5, E, sm_get_remove. destruct (Nat.eqb_spec j i); subst; intuition. }
  specialize (Hgen (seq 0 (fub_cap f)) f w Hw Hok).
  destruct (fold_left (fun fw i => fub_remove (fst fw) i (snd fw)) (seq 0 (fub_cap f)) (f, w)) as [f' w'].
  destruct Hgen as (I1 & I2 & I3 & I4 & I5). splits; auto.
  intros i. apply I5. destruct (sm_get (tasks f) i) as [c|] eqn:Hg; auto.
  left. apply in_seq. apply sm_get_lt in Hg. unfold fub_cap. lia.
Qed.

Lemma join_loop_spec own n j t w :
  winv own None w -> fub_ok own (j_q j) -> fub_len (j_q j) < n ->
  let '(j', r, w') := join_loop P n j t w in
  winv own None w' /\ fub_ok own (j_q j') /\ blk (j_q j') = blk (j_q j)
  /\ sm_cap (tasks (j_q j')) = sm_cap (tasks (j_q j)) /\ j_try j' = j_try j.
Proof.
  revert j w. induction n as [|n IH]; intros j w Hw Hok Hlen; [lia|]. cbn [join_loop].
  pose proof (@poll_inner_spec P own (if j_try j then KTry else KFut) (j_q j) t w Hw Hok) as H.
  destruct (poll_inner P (if j_try j then KTry else KFut) (j_q j) t w) as [[f pr] w1].
  destruct H as (A & B & C & D & F).
  destruct pr as [| |i c r].
  - simpl. splits; auto.
  - simpl. splits; auto.
  - destruct F as (F1 & F2 & F3 & F4).
    assert (Hgo : let '(j', r', w') := join_loop P n {| j_try := j_try j; j_q := f; j_out := upd (j_out j) i (Some (TOut (cid c))) |} t w1 in
                  winv own None w' /\ fub_ok own (j_q j') /\ blk (j_q j') = blk (j_q j)
                  /\ sm_cap (tasks (j_q j')) = sm_cap (tasks (j_q j)) /\ j_try j' = j_try j).
    { specialize (IH {| j_try := j_try j; j_q := f; j_out := upd (j_out j) i (Some (TOut (cid c))) |} w1).
      simpl in IH. assert (Hlt : fub_len f < n) by (unfold fub_len in *; lia).
      specialize (IH A B Hlt).
      destruct (join_loop P n {| j_try := j_try j; j_q := f; j_out := upd (j_out j) i (Some (TOut (cid c))) |} t w1) as [[j' r'] w'].
      destruct IH as (I1 & I2 & I3 & I4 & I5). splits; auto; congruence. }
    destruct r; try exact Hgo.
    (* an input failed: release what was collected, cancel the rest *)
    pose proof (@winv_drop_outputs own None 0 (Some i) (tasks f) (j_out j) w1 A) as Hd.
    pose proof (@fub_clear_spec own None f _ Hd B) as H.
    destruct (fub_clear f (drop_outputs_from 0 (Some i) (tasks f) (j_out j) w1)) as [f' w2].
    destruct H as (H1 & H2 & H3 & H4 & H5). simpl. splits; auto; congruence.
Qed.

Lemma join_poll_spec own j t w :
  winv own None w -> fub_ok own (j_q j) ->
  let '(j', r, w') := join_poll P j t w in
  winv own None w' /\ fub_ok own (j_q j') /\ blk (j_q j') = blk (j_q j)
  /\ sm_cap (tasks (j_q j')) = sm_cap (tasks (j_q j)) /\ j_try j' = j_try j.
Proof. intros Hw Hok. unfold join_poll. apply join_loop_spec; auto. Qed.

Lemma join_new_spec own try l w :
  winv own None w ->
  let '(j, w') := join_new try l w in
  winv (add1 (blk (j_q j)) own) None w' /\ sm_wf (tasks (j_q j)) /\ j_try j = try.
Proof.
  intros Hw. unfold join_new.
  pose proof (@fub_from_list_spec own l w Hw) as H.
  destruct (fub_from_list l w) as [f w1]. destruct H as (A & B & C & D & E).
  simpl. splits; auto. apply winv_count_alloc; auto.
Qed.

End WithParams.

(** ** drops *)
Lemma winv_queue_drop own cur q w :
  winv (add1 (blk (q_fub q)) own) cur w -> winv own cur (queue_drop q w).
Proof.
  intros Hw. destruct q as [f|o]; simpl in *.
  - apply winv_fub_drop; auto.
  - apply winv_fob_drop; auto.
Qed.

Lemma winv_adapter_drop own cur a w :
  winv (add1 (blk (q_fub (ad_q a))) own) cur w -> winv own cur (adapter_drop a w).
Proof.
  intros Hw. unfold adapter_drop. apply winv_queue_drop.
  destruct (ad_up a); auto. apply winv_emit; auto.
Qed.

Lemma winv_fec_drop own cur a w :
  winv (add1 (blk (fe_q a)) own) cur w -> winv own cur (fec_drop a w).
Proof.
  intros Hw. unfold fec_drop. apply winv_fub_drop.
  destruct (fe_up a); auto. apply winv_emit; auto.
Qed.

Lemma winv_join_drop own cur j w :
  winv (add1 (blk (j_q j)) own) cur w -> winv own cur (join_drop j w).
Proof.
  intros Hw. unfold join_drop. apply winv_fub_drop. apply winv_drop_outputs; auto.
Qed.
