(** * Orderings: the release/acquire argument for the manual reference count (C03 c)

    A deliberately small rendering of the C11 rules the code relies on.  [n] owners
    (the collection handle and the cloned wakers) each access the shared block and then
    decrement [strong] with ordering [dec] (a read-modify-write); increments are
    read-modify-writes too, so every decrement heads a release sequence that reaches the
    last decrement.  The owner [last] that reads 1 optionally executes a fence and frees
    the block.  [hb] is happens-before restricted to these events:
    sequenced-before edges, the release-RMW -> acquire-fence rule (C11 29.8p4: the
    fence is sequenced after an atomic operation that reads from the release sequence),
    the release-RMW -> acquire-RMW rule, and transitivity. *)
From FB Require Import Base.

Inductive mord := Relaxed | Release | Acquire | AcqRel | SeqCst.

Definition is_release (m : mord) : bool :=
  match m with Release | AcqRel | SeqCst => true | _ => false end.
Definition is_acquire (m : mord) : bool :=
  match m with Acquire | AcqRel | SeqCst => true | _ => false end.

Definition fence_acquires (f : option mord) : bool :=
  match f with Some m => is_acquire m | None => false end.

(** the side condition checked against the orderings found in the source on every run;
    the ordering of the increment is irrelevant (any RMW continues a release sequence) *)
Definition orderings_sufficient (inc dec : mord) (fence : option mord) : bool :=
  is_release dec && (fence_acquires fence || is_acquire dec).

Inductive ev := Acc (i : nat) | Dec (i : nat) | Fence | FreeBlk.

Section Exec.
Variables (inc dec : mord) (fence : option mord).
Variables (n last : nat).

Inductive hb : ev -> ev -> Prop :=
| hb_sb_acc i : i < n -> hb (Acc i) (Dec i)
| hb_sb_fence f : fence = Some f -> hb (Dec last) Fence
| hb_sb_free_f f : fence = Some f -> hb Fence FreeBlk
| hb_sb_free_nf : fence = None -> hb (Dec last) FreeBlk
| hb_sw_fence i f : i < n -> i <> last -> is_release dec = true ->
                    fence = Some f -> is_acquire f = true -> hb (Dec i) Fence
| hb_sw_rmw i : i < n -> i <> last -> is_release dec = true -> is_acquire dec = true ->
                hb (Dec i) (Dec last)
| hb_trans a b c : hb a b -> hb b c -> hb a c.

Lemma last_reaches_free : hb (Dec last) FreeBlk.
Proof.
  destruct fence as [f|] eqn:E.
  - eapply hb_trans; [eapply hb_sb_fence | eapply hb_sb_free_f]; eauto.
  - apply hb_sb_free_nf; auto.
Qed.

(** every access by every owner happens before the deallocation *)
Theorem sufficient_hb :
  orderings_sufficient inc dec fence = true ->
  forall i, i < n -> hb (Acc i) FreeBlk.
Proof.
  unfold orderings_sufficient. intros H i Hi.
  apply andb_true_iff in H. destruct H as [Hrel Hacq].
  eapply hb_trans; [apply hb_sb_acc; exact Hi|].
  destruct (Nat.eq_dec i last) as [->|Hne]; [apply last_reaches_free|].
  apply orb_true_iff in Hacq. destruct Hacq as [Hf|Hd].
  - unfold fence_acquires in Hf. destruct fence as [f|] eqn:E; [|discriminate].
    eapply hb_trans; [eapply hb_sw_fence; eauto | eapply hb_sb_free_f; eauto].
  - eapply hb_trans; [eapply hb_sw_rmw; eauto | apply last_reaches_free].
Qed.

(** without the side condition an owner other than the last one is not ordered before the free *)
Theorem insufficient_no_hb :
  orderings_sufficient inc dec fence = false ->
  forall i, i < n -> i <> last -> ~ hb (Acc i) FreeBlk.
Proof.
  unfold orderings_sufficient. intros H i Hi Hne Hhb.
  assert (Hnosw : is_release dec = true -> fence_acquires fence || is_acquire dec = false).
  { intros Hr. rewrite Hr in H. exact H. }
  assert (Hclosed : forall a b, hb a b -> (a = Acc i \/ a = Dec i) -> (b = Acc i \/ b = Dec i)).
  { intros a b Hab. induction Hab as [j Hj|f Hf|f Hf|Hf|j f Hj Hjl Hr Hf Ha|j Hj Hjl Hr Ha|a b c Hab1 IH1 Hab2 IH2]; intros Hin.
    - destruct Hin as [E|E]; inversion E; subst. right; reflexivity.
    - destruct Hin as [E|E]; inversion E; subst. congruence.
    - destruct Hin as [E|E]; inversion E.
    - destruct Hin as [E|E]; inversion E; subst. congruence.
    - exfalso. specialize (Hnosw Hr). unfold fence_acquires in Hnosw. rewrite Hf, Ha in Hnosw. discriminate.
    - exfalso. specialize (Hnosw Hr). rewrite Ha, orb_true_r in Hnosw. discriminate.
    - apply IH2, IH1, Hin. }
  destruct (Hclosed _ _ Hhb (or_introl eq_refl)); discriminate.
Qed.
End Exec.

(** the orderings used today satisfy the side condition; a Relaxed decrement or a missing fence does not *)
Example today_ok : orderings_sufficient Relaxed Release (Some Acquire) = true. Proof. reflexivity. Qed.
Example relaxed_dec_bad : orderings_sufficient Relaxed Relaxed (Some Acquire) = false. Proof. reflexivity. Qed.
Example no_fence_bad : orderings_sufficient Relaxed Release None = false. Proof. reflexivity. Qed.
Example witness_no_hb : ~ hb Release None 2 1 (Acc 0) FreeBlk.
Proof. apply insufficient_no_hb with (inc := Relaxed); auto. Qed.
