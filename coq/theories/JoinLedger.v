(** * JoinLedger: the ledger of output values for join_all / try_join_all (C06 / C07)

    The outputs collected so far sit in the cells of the output buffer ([parked_j]); the call that
    finishes hands all of them out; the error path and [Drop] drop exactly the written cells.
    For every history of a join:  parked now ++ handed out ++ dropped inside  ≡  produced. *)
From FB Require Import Base Syntax World SlotMap Fub Unbounded Ordered Adapters Step Tactics SlotMapProofs WorldProofs FubProofs
  UnboundedProofs AdaptersProofs StepProofs Reach JoinProofs TokenLedger.
From Coq Require Import Permutation.
Set Implicit Arguments.

Ltac permtok :=
  rewrite (Permutation_count_occ tok_eq_dec) in *;
  let x := fresh "x" in intros x;
  repeat match goal with H : forall y : tok, _ |- _ => specialize (H x) end;
  rewrite ?count_occ_app in *; simpl in *;
  repeat match goal with
         | |- context [if ?d then _ else _] => destruct d
         | H : context [if ?d then _ else _] |- _ => destruct d
         end; try lia.

Definition parked_j (j : join) : list tok := flat_map opt_tok (j_out j).

Lemma flat_map_upd_none (out : list (option tok)) i tk :
  nth_error out i = Some None -> Permutation (flat_map opt_tok (upd out i (Some tk))) (tk :: flat_map opt_tok out).
Proof.
  revert i. induction out as [|o out IH]; intros [|i] H; simpl in *; try discriminate.
  - inversion H; subst. simpl. reflexivity.
  - rewrite (IH i H). destruct o; simpl; auto. apply perm_swap.
Qed.

(** dropping the outputs: written cells sit at vacant, non-skipped slots (they are dropped);
    unwritten cells sit at occupied slots or at the skipped one (nothing is dropped for them) *)
Lemma drop_outputs_idr m out i0 skip w :
  (forall k o, nth_error out k = Some o ->
     match o with
     | Some _ => sm_get m (i0 + k) = None /\ skip <> Some (i0 + k)
     | None => sm_get m (i0 + k) <> None \/ skip = Some (i0 + k)
     end) ->
  exists l, log (drop_outputs_from i0 skip m out w) = l ++ log w
            /\ prodF l = [] /\ handed l = [] /\ Permutation (idr l) (flat_map opt_tok out).
Proof.
  revert i0 w. induction out as [|o out IH]; intros i0 w H; cbn [drop_outputs_from].
  - exists []. splits; auto.
  - pose proof (H 0 o eq_refl) as H0. rewrite Nat.add_0_r in H0.
    assert (Hrest : forall k o', nth_error out k = Some o' ->
              match o' with
              | Some _ => sm_get m (S i0 + k) = None /\ skip <> Some (S i0 + k)
              | None => sm_get m (S i0 + k) <> None \/ skip = Some (S i0 + k)
              end).
    { intros k o' Hk. specialize (H (S k) o' Hk). replace (i0 + S k) with (S i0 + k) in H by lia. exact H. }
    set (skipped := match skip with Some s => Nat.eqb s i0 | None => false end).
    set (w1 := if skipped then w else match sm_get m i0 with None => emit (EODrop (cell_tok o) true) w | Some _ => w end).
    destruct (IH (S i0) w1 Hrest) as (l & Hl & A & B & C).
    assert (Hw1 : exists l1, log w1 = l1 ++ log w /\ prodF l1 = [] /\ handed l1 = [] /\ idr l1 = opt_tok o).
    { unfold w1, skipped. destruct o as [tk|].
      - destruct H0 as [Hv Hs]. rewrite Hv.
        assert (Hsk : match skip with Some s => Nat.eqb s i0 | None => false end = false).
        { destruct skip as [s|]; auto. destruct (Nat.eqb_spec s i0); auto. subst. congruence. }
        rewrite Hsk. exists [EODrop tk true]. splits; reflexivity.
      - destruct H0 as [Ho|Hs].
        + destruct (match skip with Some s => Nat.eqb s i0 | None => false end); [exists []; splits; auto|].
          destruct (sm_get m i0); [exists []; splits; auto|congruence].
        + rewrite Hs, Nat.eqb_refl. exists []; splits; auto. }
    destruct Hw1 as (l1 & Hl1 & A1 & B1 & C1).
    exists (l ++ l1). rewrite Hl, Hl1, app_assoc, prodF_app, handed_app, idr_app, A, A1, B, B1, C1. splits; auto.
    simpl. rewrite C. apply Permutation_app_comm.
Qed.

Section WithParams.
Variable P : params.
Hypothesis HP : params_ok P.

Lemma poll_inner_tok k f t w :
  tsuf w (snd (poll_inner P k f t w)) (pres_tok (snd (fst (poll_inner P k f t w)))).
Proof.
  unfold poll_inner. pose proof (poll_inner_no_remove_tok P k f t w) as H.
  destruct (poll_inner_no_remove P k f t w) as [[f1 pr] w1]. cbn [fst snd] in *.
  destruct pr as [| |i c r]; cbn [fst snd pres_tok] in *; auto.
  pose proof (bsuf_fub_remove f1 i w1) as Hr. destruct (fub_remove f1 i w1) as [f2 w2]. cbn [fst snd pres_tok] in *.
  eapply tsuf_bsuf_r; eauto.
Qed.

Lemma poll_inner_ready_kind k f t w i c r :
  k <> KSrc -> snd (fst (poll_inner P k f t w)) = PReady i c r -> r = RR \/ r = RX.
Proof.
  intros Hk. unfold poll_inner, poll_inner_no_remove.
  destruct (Nat.eqb (fub_len f) 0); cbn [fst snd]; [discriminate|].
  pose proof (@drain_ready_kind k (pB P) f t (register (blk f) t w)) as H.
  destruct (drain k (pB P) f t (register (blk f) t w)) as [[f1 pr] w1]. cbn [fst snd] in *.
  destruct pr as [| |i0 c0 r0]; cbn [fst snd]; try discriminate.
  destruct (fub_remove f1 i0 w1) as [f2 w2]. cbn [fst snd]. intros E; inversion E; subst. eapply H; eauto.
Qed.

Lemma bsuf_fub_clear f w : bsuf w (snd (fub_clear f w)).
Proof.
  unfold fub_clear. generalize (seq 0 (fub_cap f)). intros l. revert f w.
  induction l as [|i l IH]; intros f w; simpl; [bs|].
  pose proof (bsuf_fub_remove f i w) as Hr. destruct (fub_remove f i w) as [f1 w1]. cbn [fst snd] in *.
  eapply bsuf_trans; [exact Hr|apply IH].
Qed.

(** balance of a join call *)
Definition JBAL (pk : list tok) (w : world) (hd : list tok) (pk' : list tok) (w' : world) : Prop :=
  exists l, log w' = l ++ log w /\ handed l = [] /\ Permutation (pk' ++ hd ++ idr l) (pk ++ prodF l).

Lemma all_cells_written ids (out : list (option tok)) :
  length out = length ids ->
  (forall i, i < length ids -> exists id, nth_error ids i = Some id /\ nth_error out i = Some (Some (TOut id))) ->
  flat_map opt_tok out = map TOut ids.
Proof.
  revert out. induction ids as [|id ids IH]; intros [|o out] Hl H; simpl in *; try discriminate; auto.
  destruct (H 0 (Nat.lt_0_succ _)) as (id' & H1 & H2). simpl in H1, H2. inversion H1; inversion H2; subst.
  simpl. f_equal. apply IH; [lia|]. intros i Hi. apply (H (S i)). lia.
Qed.

Lemma join_loop_tok own ids n j t w :
  winv own None w -> fub_ok own (j_q j) -> join_inv ids j -> fub_len (j_q j) < n ->
  let '(j', r, w') := join_loop P n j t w in JBAL (parked_j j) w (ret_toks r) (parked_j j') w'.
Proof.
  revert j w. induction n as [|n IH]; intros j w Hw Hok Hinv Hfuel; cbn [join_loop]; [lia|].
  pose proof (@poll_inner_spec P own (if j_try j then KTry else KFut) (j_q j) t w Hw Hok) as Hs.
  pose proof (poll_inner_ids P (if j_try j then KTry else KFut) (j_q j) t w) as Hp.
  pose proof (poll_inner_tok (if j_try j then KTry else KFut) (j_q j) t w) as Ht.
  assert (Hkk : (if j_try j then KTry else KFut) <> KSrc) by (destruct (j_try j); discriminate).
  pose proof (fun i c r => @poll_inner_ready_kind (if j_try j then KTry else KFut) (j_q j) t w i c r Hkk) as Hrk.
  destruct (poll_inner P (if j_try j then KTry else KFut) (j_q j) t w) as [[f pr] w1]. cbn [fst snd] in Ht, Hrk.
  destruct Hs as (A & B & C & D & F).
  destruct j as [try q out]. simpl in *.
  destruct pr as [| |i c r]; cbn [pres_tok] in Ht.
  - (* pending *)
    destruct Ht as (l & H & A1 & B1 & C1). exists l. unfold parked_j; simpl. rewrite A1, B1. splits; auto;
      try (rewrite !app_nil_r; reflexivity).
  - (* everything finished: all cells are handed out *)
    destruct F as (F1 & -> & ->).
    assert (Hvac : forall i, sm_get (tasks q) i = None).
    { apply sm_wf_filled0_vacant; [apply Hok | exact F1]. }
    destruct Ht as (l & H & A1 & B1 & C1). exists l. unfold parked_j; simpl. rewrite A1, B1. splits; auto.
    rewrite !app_nil_r.
    destruct Hinv as [[H1 _]|(H1 & H2 & H3)]; simpl in *.
    + rewrite H1. destruct try; simpl; reflexivity.
    + assert (Hcells : forall i, i < length ids -> exists id, nth_error ids i = Some id /\ nth_error out i = Some (Some (TOut id))).
      { intros i Hi. rewrite H2 in Hi. specialize (H3 i Hi). unfold cell_ok in H3. rewrite Hvac in H3. exact H3. }
      assert (Hl : length out = length ids) by congruence.
      rewrite (all_cells_written ids out Hl Hcells), (map_cell_tok_full ids out Hl Hcells).
      destruct try; simpl; reflexivity.
  - (* a child finished *)
    destruct F as (F1 & F2 & F3 & F4).
    destruct Hp as (c0 & Hg0 & Hcid & Hg2 & Hcap & Hoth).
    destruct Hinv as [[H1 H2]|(H1 & H2 & H3)]; simpl in *; [rewrite H2 in Hg0; discriminate|].
    assert (Hi : i < sm_cap (tasks q)) by (eapply sm_get_lt; eauto).
    pose proof (H3 i Hi) as Hci. unfold cell_ok in Hci. rewrite Hg0 in Hci. destruct Hci as [Hci1 Hci2].
    assert (Hinv' : join_inv ids {| j_try := try; j_q := f; j_out := upd out i (Some (TOut (cid c))) |}).
    { right; simpl. rewrite upd_length. splits; try congruence.
      intros i' Hi'. rewrite Hcap in Hi'. unfold cell_ok.
      destruct (Nat.eq_dec i' i) as [->|Hne].
      - rewrite Hg2. exists (cid c). split; [congruence | apply nth_error_upd_eq; lia].
      - rewrite nth_error_upd_neq by auto.
        eapply cell_ok_transfer; [apply (Hoth i' Hne)|]. auto. }
    assert (Hkind : r = RR \/ r = RX) by (apply (Hrk i c r eq_refl)).
    destruct Hkind as [-> | ->].
    + (* Ok: the output goes into its cell *)
      assert (Hgo : let '(j', r', w') := join_loop P n {| j_try := try; j_q := f; j_out := upd out i (Some (TOut (cid c))) |} t w1 in
                    JBAL (parked_j {| j_try := try; j_q := f; j_out := upd out i (Some (TOut (cid c))) |}) w1 (ret_toks r')
                         (parked_j j') w').
      { apply (IH {| j_try := try; j_q := f; j_out := upd out i (Some (TOut (cid c))) |} w1); auto.
        simpl. unfold fub_len in *. lia. }
      destruct (join_loop P n {| j_try := try; j_q := f; j_out := upd out i (Some (TOut (cid c))) |} t w1) as [[j' r'] w'].
      destruct Hgo as (l2 & H2' & B2 & P2). destruct Ht as (l1 & H1' & A1 & B1 & C1).
      exists (l2 ++ l1). rewrite H2', H1', app_assoc, handed_app, idr_app, prodF_app, B2, C1, A1, B1. splits; auto.
      unfold parked_j in *; simpl in *. rewrite (flat_map_upd_none out i (TOut (cid c)) Hci1) in P2.
      rewrite app_nil_r. revert P2. generalize (flat_map opt_tok (j_out j')) (ret_toks r') (idr l2) (flat_map opt_tok out) (prodF l2).
      intros a b0 c1 d e P2. simpl. permtok.
    + (* Err: the collected outputs are dropped, the rest is cancelled *)
      assert (Hcond : forall k o, nth_error out k = Some o ->
                match o with
                | Some _ => sm_get (tasks f) (0 + k) = None /\ Some i <> Some (0 + k)
                | None => sm_get (tasks f) (0 + k) <> None \/ Some i = Some (0 + k)
                end).
      { intros k o Hk. simpl. assert (Hklt : k < sm_cap (tasks q)) by (rewrite <- H1; eapply nth_error_Some_lt; eauto).
        destruct (Nat.eq_dec k i) as [->|Hne].
        - rewrite Hci1 in Hk. inversion Hk; subst. right; reflexivity.
        - pose proof (H3 k Hklt) as Hck. unfold cell_ok in Hck.
          pose proof (Hoth k Hne) as Ho.
          destruct (sm_get (tasks q) k) as [ck|] eqn:Hgk.
          + destruct Hck as [Hc1 _]. rewrite Hc1 in Hk. inversion Hk; subst. left.
            destruct (sm_get (tasks f) k); [discriminate|simpl in Ho; discriminate].
          + destruct Hck as (id & _ & Hc2). rewrite Hc2 in Hk. inversion Hk; subst. split.
            * destruct (sm_get (tasks f) k); [simpl in Ho; discriminate|reflexivity].
            * intros E; inversion E; congruence. }
      destruct (drop_outputs_idr (tasks f) out 0 (Some i) w1 Hcond) as (ld & Hld & Ad & Bd & Cd).
      pose proof (bsuf_fub_clear f (drop_outputs_from 0 (Some i) (tasks f) out w1)) as Hcl.
      destruct (fub_clear f (drop_outputs_from 0 (Some i) (tasks f) out w1)) as [f' w2]. cbn [snd] in Hcl.
      destruct Hcl as (lc & Hlc & Ac & Bc & Cc). destruct Ht as (l1 & H1' & A1 & B1 & C1).
      exists (lc ++ ld ++ l1). rewrite Hlc, Hld, H1', !app_assoc. splits; auto.
      * rewrite !handed_app, Cc, Bd, C1. reflexivity.
      * rewrite !idr_app, !prodF_app, Bc, Ac, Ad, B1, A1. unfold parked_j; simpl.
        rewrite !app_nil_r. revert Cd. generalize (idr ld) (flat_map opt_tok out). intros a b0 Cd. permtok.
Qed.


Lemma join_drop_tok ids j w :
  join_inv ids j ->
  exists l, log (join_drop j w) = l ++ log w /\ prodF l = [] /\ handed l = [] /\ Permutation (idr l) (parked_j j).
Proof.
  intros Hinv. unfold join_drop.
  assert (Hcond : forall k o, nth_error (j_out j) k = Some o ->
            match o with
            | Some _ => sm_get (tasks (j_q j)) (0 + k) = None /\ (@None nat) <> Some (0 + k)
            | None => sm_get (tasks (j_q j)) (0 + k) <> None \/ (@None nat) = Some (0 + k)
            end).
  { intros k o Hk. simpl. destruct Hinv as [[H1 _]|(H1 & H2 & H3)].
    - rewrite H1 in Hk. destruct k; discriminate.
    - assert (Hklt : k < sm_cap (tasks (j_q j))) by (rewrite <- H1; eapply nth_error_Some_lt; eauto).
      pose proof (H3 k Hklt) as Hck. unfold cell_ok in Hck.
      destruct (sm_get (tasks (j_q j)) k) as [ck|] eqn:Hgk.
      + destruct Hck as [Hc1 _]. rewrite Hc1 in Hk. inversion Hk; subst. left. discriminate.
      + destruct Hck as (id & _ & Hc2). rewrite Hc2 in Hk. inversion Hk; subst. split; [reflexivity|discriminate]. }
  destruct (drop_outputs_idr (tasks (j_q j)) (j_out j) 0 None w Hcond) as (ld & Hld & Ad & Bd & Cd).
  destruct (bsuf_fub_drop (j_q j) (drop_outputs_from 0 None (tasks (j_q j)) (j_out j) w)) as (lf & Hlf & Af & Bf & Cf).
  exists (lf ++ ld). rewrite Hlf, Hld, app_assoc, prodF_app, handed_app, idr_app, Af, Ad, Bf, Cf, Bd. splits; auto.
Qed.

Lemma join_new_tok try l w : parked_j (fst (join_new try l w)) = [] /\ bsuf w (snd (join_new try l w)).
Proof.
  unfold join_new. pose proof (bsuf_fub_from_list l w) as H. destruct (fub_from_list l w) as [f w1]. cbn [fst snd] in *.
  split; [|eapply bsuf_trans; [exact H|bs]]. unfold parked_j. simpl. induction (length l); simpl; auto.
Qed.

(** ** whole histories of a join *)
Definition parked_k (k : coll) : list tok := match k with CJoin j => parked_j j | _ => [] end.
Definition JK (k : coll) : Prop :=
  match k with
  | CJoin j => exists ids, join_inv ids j
  | CNone | CDropped | CDead => True
  | _ => False
  end.
Definition join_op (o : op) : Prop := match o with OBuild t _ _ _ => t = TJA \/ t = TTJA | _ => True end.

Definition JSTEP (k : coll) (w : world) (k' : coll) (w' : world) : Prop :=
  exists l, log w' = l ++ log w /\ Permutation (parked_k k' ++ handed l ++ idr l) (parked_k k ++ prodF l).

Lemma JSTEP_bsuf k w w' : bsuf w w' -> JSTEP k w k w'.
Proof. intros (l & H & A & B & C). exists l. split; auto. rewrite A, B, C, !app_nil_r. reflexivity. Qed.

Lemma step_core_join k o w :
  cinv k w -> JK k -> join_op o ->
  JSTEP k w (fst (step_core P k o w)) (snd (step_core P k o w)) /\ JK (fst (step_core P k o w)).
Proof.
  intros [Hw Hok] Hk Ho. unfold step_core.
  destruct o as [ty p inits ups|c sc|c sc|c sc|c sc|t i|a| | | | ].
  - (* build *)
    destruct k; try contradiction; cbn [fst snd]; try (split; [apply JSTEP_bsuf; bs|exact Hk]).
    unfold build. destruct Ho as [-> | ->].
    + destruct (join_new_tok false (mk_children inits) w) as [A B].
      pose proof (join_new_inv false (mk_children inits) w) as Hi.
      destruct (join_new false (mk_children inits) w) as [j w1]. cbn [fst snd] in *. split.
      * destruct B as (l & H & A1 & B1 & C1). exists l. split; auto. cbn [parked_k]. rewrite A, A1, B1, C1. reflexivity.
      * exists (map cid (mk_children inits)). exact Hi.
    + destruct (join_new_tok true (mk_children inits) w) as [A B].
      pose proof (join_new_inv true (mk_children inits) w) as Hi.
      destruct (join_new true (mk_children inits) w) as [j w1]. cbn [fst snd] in *. split.
      * destruct B as (l & H & A1 & B1 & C1). exists l. split; auto. cbn [parked_k]. rewrite A, A1, B1, C1. reflexivity.
      * exists (map cid (mk_children inits)). exact Hi.
  - unfold do_push. destruct k; try contradiction; cbn [fst snd]; split; auto; apply JSTEP_bsuf; bs.
  - unfold do_push. destruct k; try contradiction; cbn [fst snd]; split; auto; apply JSTEP_bsuf; bs.
  - unfold do_push. destruct k; try contradiction; cbn [fst snd]; split; auto; apply JSTEP_bsuf; bs.
  - unfold do_push. destruct k; try contradiction; cbn [fst snd]; split; auto; apply JSTEP_bsuf; bs.
  - (* poll *)
    unfold do_poll. destruct k; try contradiction; cbn [fst snd]; try (split; [apply JSTEP_bsuf; bs|exact Hk]).
    destruct Hk as [ids Hinv]. simpl in Hw, Hok.
    pose proof (@join_loop_tok _ ids (S (fub_len (j_q j))) j t w Hw (fub_ok_single _ Hok) Hinv (Nat.lt_succ_diag_r _)) as Ht.
    pose proof (@join_poll_inv P _ ids j t w Hw (fub_ok_single _ Hok) Hinv) as Hi.
    unfold join_poll in *.
    destruct (join_loop P (S (fub_len (j_q j))) j t w) as [[j' r] w1]. cbn [fst snd]. destruct Hi as (_ & _ & Hi & _).
    split; [|exists ids; exact Hi].
    destruct Ht as (l1 & H1 & B1 & P1). destruct (emit_ret_tok r w1) as (l2 & H2 & A2 & B2 & C2).
    exists (l2 ++ l1). rewrite H2, H1, app_assoc, handed_app, idr_app, prodF_app, A2, B2, C2, B1. split; auto.
    cbn [parked_k]. simpl. rewrite app_nil_r. exact P1.
  - cbn [fst snd]. split; auto. apply JSTEP_bsuf. apply bsuf_do_act.
  - cbn [fst snd]. split; auto. apply JSTEP_bsuf. destruct (observe P k); bs.
  - cbn [fst snd]. split; auto. apply JSTEP_bsuf. bs.
  - (* drop *)
    unfold do_drop. destruct k; try contradiction; cbn [fst snd]; try (split; [apply JSTEP_bsuf; bs|exact I]).
    destruct Hk as [ids Hinv]. split; [|exact I].
    destruct (join_drop_tok w Hinv) as (l & H & A & B & C). exists l. split; auto.
    cbn [parked_k]. rewrite A, B. simpl. rewrite app_nil_r. exact C.
  - cbn [fst snd]. split; auto. apply JSTEP_bsuf. unfold cleanup. apply bsuf_cleanup_from.
Qed.

Theorem join_token_ledger_from s ops :
  Inv s -> JK (st_coll s) -> Forall join_op ops ->
  Permutation (parked_k (st_coll (run_state P s ops)) ++ handed_in P s ops ++ dropped_inside_in P s ops)
              (parked_k (st_coll s) ++ produced_in P s ops).
Proof.
  revert s. induction ops as [|o ops IH]; intros s Hs Hk Hall; simpl.
  - unfold handed_in, dropped_inside_in, produced_in. simpl. rewrite !app_nil_r. reflexivity.
  - inversion Hall as [|o' ops' Ho Hall']; subst.
    unfold handed_in, dropped_inside_in, produced_in in *. simpl. rewrite !flat_map_app.
    destruct (is_dead (st_coll s)) eqn:Hd.
    + assert (Hfix : fst (step_op P s o) = s) by (unfold step_op; rewrite Hd; reflexivity).
      rewrite Hfix in *. simpl. apply IH; auto.
    + simpl. rewrite !app_nil_r.
      set (s' := fst (step_op P s o)) in *.
      assert (Hstep : Permutation (parked_k (st_coll s') ++ handed (log (st_world s')) ++ idr (log (st_world s')))
                        (parked_k (st_coll s) ++ prodF (log (st_world s'))) /\ JK (st_coll s')).
      { unfold s', step_op. rewrite Hd. destruct Hs as [Hw Hok].
        assert (Hc : cinv (st_coll s) (begin_op (op_inj o) (st_world s))) by (split; auto; apply winv_begin_op; auto).
        destruct (@step_core_join (st_coll s) o (begin_op (op_inj o) (st_world s)) Hc Hk Ho) as [(l & H & Pm) Ht].
        destruct (step_core P (st_coll s) o (begin_op (op_inj o) (st_world s))) as [k' w']. cbn [fst snd st_coll st_world] in *.
        simpl in H. rewrite app_nil_r in H. rewrite H. split; auto. }
      destruct Hstep as [Hstep Ht]. specialize (IH s' (step_inv HP o Hs) Ht Hall').
      revert Hstep IH. generalize (parked_k (st_coll s')) (handed (log (st_world s'))) (idr (log (st_world s')))
        (prodF (log (st_world s'))) (parked_k (st_coll (run_state P s' ops))) (parked_k (st_coll s)).
      intros pk1 h1 d1 p1 pk2 pk0 Hstep IH. permtok.
Qed.

Theorem join_token_ledger ops :
  Forall join_op ops ->
  Permutation (parked_k (st_coll (reach P ops)) ++ handed_in P init_state ops ++ dropped_inside_in P init_state ops)
              (produced_in P init_state ops).
Proof. intros H. apply (@join_token_ledger_from init_state ops Inv_init I H). Qed.

End WithParams.
