(** * FoOrder: [FuturesOrdered] (unbounded) is a double-ended queue too (C04): the running
      indices are spread over the groups of the inner FuturesUnordered *)
From FB Require Import Base Syntax World SlotMap Fub Unbounded Ordered Tactics SlotMapProofs WorldProofs FubProofs
  UnboundedProofs OrderedProofs WordArith OrderProofs FobOrder.
From Coq Require Import Permutation.
Set Implicit Arguments.
Local Open Scope Z_scope.

Definition run_gs (gs : list fub) : list Z := flat_map (fun g => run_of (tasks g)) gs.
Definition run_fu (u : fu) : list Z := run_gs (groups u).

Lemma run_gs_app a b : run_gs (a ++ b) = run_gs a ++ run_gs b.
Proof. unfold run_gs. apply flat_map_app. Qed.

Lemma run_gs_split l1 g l2 : run_gs (l1 ++ g :: l2) = run_gs l1 ++ run_of (tasks g) ++ run_gs l2.
Proof. rewrite run_gs_app. reflexivity. Qed.

Lemma fub_new_eq' cap w :
  exists w', fub_new cap w = ({| tasks := sm_new cap; blk := length (blocks w) |}, w').
Proof. unfold fub_new. simpl. eexists. reflexivity. Qed.

Lemma drain_not_none k n f t w : snd (fst (drain k n f t w)) <> PNone.
Proof.
  revert f w. induction n as [|n IH]; intros f w; cbn [drain]; [discriminate|].
  destruct (pop (blk f) w) as [pr w1]. destruct pr as [| |i]; try discriminate.
  destruct (sm_get (tasks f) i) as [c|]; [|apply IH].
  destruct (poll_child k c (blk f) i w1) as [[c' r] w2]. destruct (is_ready r); [discriminate|apply IH].
Qed.

Lemma drain_wf k n f t w : sm_wf (tasks f) -> sm_wf (tasks (fst (fst (drain k n f t w)))).
Proof.
  revert f w. induction n as [|n IH]; intros f w H; cbn [drain]; auto.
  destruct (pop (blk f) w) as [pr w1]. destruct pr as [| |i]; auto.
  destruct (sm_get (tasks f) i) as [c|] eqn:Hg; [|apply IH; auto].
  destruct (poll_child k c (blk f) i w1) as [[c' r] w2].
  assert (Hs : sm_wf (sm_set (tasks f) i c')) by (eapply sm_set_wf; eauto).
  destruct (is_ready r); [exact Hs|]. apply IH. exact Hs.
Qed.

Section WithParams.
Variable P : params.
Hypothesis HP : params_ok P.

Lemma fub_poll_next_wf k f t w : sm_wf (tasks f) -> sm_wf (tasks (fst (fst (fub_poll_next P k f t w)))).
Proof.
  intros H. unfold fub_poll_next, poll_inner, poll_inner_no_remove.
  destruct (Nat.eqb (fub_len f) 0); auto.
  pose proof (@drain_wf k (pB P) f t (register (blk f) t w) H) as Hd.
  destruct (drain k (pB P) f t (register (blk f) t w)) as [[f1 pr] w1]. simpl in Hd.
  destruct pr as [| |i c r]; auto.
  unfold fub_remove. destruct (sm_get (tasks f1) i); simpl; auto. apply sm_remove_wf; auto.
Qed.

Lemma fub_poll_next_none k f t w :
  snd (fst (fub_poll_next P k f t w)) = SNone -> fst (fst (fub_poll_next P k f t w)) = f /\ fub_len f = 0%nat.
Proof.
  unfold fub_poll_next, poll_inner, poll_inner_no_remove.
  destruct (Nat.eqb_spec (fub_len f) 0) as [Hz|Hnz]; [simpl; auto|].
  pose proof (drain_not_none k (pB P) f t (register (blk f) t w)) as H.
  destruct (drain k (pB P) f t (register (blk f) t w)) as [[f1 pr] w1]. simpl in H.
  destruct pr as [| |i c r]; simpl; try discriminate; [contradiction|].
  destruct (fub_remove f1 i w1); simpl; discriminate.
Qed.

(** the round-robin loop of the inner FuturesUnordered: the running indices are conserved, an
    item takes exactly its own index out *)
Lemma fu_loop_run n u t w :
  Forall (fun g => sm_wf (tasks g)) (groups u) ->
  let '(u', sp, _) := fu_loop P false n u t w in
  match sp with
  | SItem _ c => Permutation (run_fu u) (cidx c :: run_fu u')
  | _ => Permutation (run_fu u) (run_fu u')
  end /\ Forall (fun g => sm_wf (tasks g)) (groups u').
Proof.
  revert u w. induction n as [|n IH]; intros u w Hwf; cbn [fu_loop].
  - destruct (Nat.eqb (rem u) 0); split; auto.
  - set (cur := if Nat.leb (length (groups u)) (cursor u) then 0%nat else cursor u).
    destruct (nth_error (groups u) cur) as [g|] eqn:Hg; [|split; auto].
    destruct (nth_error_split _ _ Hg) as (l1 & l2 & Hs & Hl1).
    assert (Hupd : forall g', upd (groups u) cur g' = l1 ++ g' :: l2).
    { intros g'. rewrite Hs, <- Hl1. clear. induction l1; simpl; auto. rewrite IHl1; auto. }
    assert (Hrm : remove_nth (groups u) cur = l1 ++ l2).
    { rewrite Hs, <- Hl1. clear. induction l1; simpl; auto. rewrite IHl1; auto. }
    assert (Hwfs : Forall (fun g => sm_wf (tasks g)) l1 /\ sm_wf (tasks g) /\ Forall (fun g => sm_wf (tasks g)) l2).
    { rewrite Hs in Hwf. apply Forall_app in Hwf as [A B]. inversion B; auto. }
    destruct Hwfs as (W1 & Wg & W2).
    unfold poll_group.
    pose proof (fub_poll_next_run P KFut g t w) as Hr.
    pose proof (@fub_poll_next_none KFut g t w) as Hn.
    pose proof (@fub_poll_next_wf KFut g t w Wg) as Hw'.
    destruct (fub_poll_next P KFut g t w) as [[g' sp] w1]. simpl in Hn, Hw'.
    destruct sp as [| |tk c].
    + specialize (IH (set_groups u (upd (groups u) cur g') (S cur)) w1). simpl in IH. rewrite Hupd in IH.
      destruct (fu_loop P false n (set_groups u (l1 ++ g' :: l2) (S cur)) t w1) as [[u' sp'] w'] eqn:E.
      rewrite Hupd, E. destruct IH as [I1 I2]; [apply Forall_app; split; auto|]. split; auto.
      assert (Hp : Permutation (run_fu u) (run_gs (l1 ++ g' :: l2))).
      { unfold run_fu. rewrite Hs, !run_gs_split, Hr. apply Permutation_refl. }
      destruct sp'; eapply Permutation_trans; eauto.
    + destruct (Hn eq_refl) as [-> Hz].
      assert (Hnil : run_of (tasks g) = []) by (apply filled0_run_nil; auto).
      assert (Hp : Permutation (run_fu u) (run_gs (l1 ++ l2))).
      { unfold run_fu. rewrite Hs, run_gs_split, run_gs_app, Hnil. apply Permutation_refl. }
      rewrite Hrm. destruct (l1 ++ l2) as [|g0 gs0] eqn:Hgs.
      * simpl. split; [|constructor; [exact Wg|constructor]].
        unfold run_fu at 2. simpl. unfold run_gs. simpl. rewrite Hnil. simpl.
        eapply Permutation_trans; [exact Hp|]. unfold run_gs; simpl. apply Permutation_refl.
      * rewrite <- Hgs. rewrite <- Hgs in Hp. destruct (Nat.eqb cur (length (l1 ++ l2))).
        -- specialize (IH (set_groups u ((l1 ++ l2) ++ [g]) 0%nat) w1). simpl in IH.
           destruct (fu_loop P false n (set_groups u ((l1 ++ l2) ++ [g]) 0%nat) t w1) as [[u' sp'] w'].
           destruct IH as [I1 I2]; [apply Forall_app; split; [apply Forall_app; split; auto|constructor; [exact Wg|constructor]]|].
           split; auto.
           assert (Hp2 : Permutation (run_fu u) (run_gs ((l1 ++ l2) ++ [g]))).
           { rewrite run_gs_app. unfold run_gs at 2. simpl. rewrite Hnil. simpl. rewrite app_nil_r. exact Hp. }
           destruct sp'; eapply Permutation_trans; eauto.
        -- specialize (IH (set_groups u (l1 ++ l2) cur) (fub_drop g w1)). simpl in IH.
           destruct (fu_loop P false n (set_groups u (l1 ++ l2) cur) t (fub_drop g w1)) as [[u' sp'] w'].
           destruct IH as [I1 I2]; [apply Forall_app; split; auto|]. split; auto.
           destruct sp'; eapply Permutation_trans; eauto.
    + simpl. rewrite Hupd. split; [|apply Forall_app; split; auto].
      unfold run_fu. simpl. rewrite Hs, !run_gs_split.
      eapply Permutation_trans; [apply Permutation_app_head; apply Permutation_app_tail; exact Hr|].
      simpl. apply Permutation_sym. apply Permutation_middle.
Qed.

Lemma run_of_new cap : run_of (sm_new cap) = [].
Proof. unfold run_of, sm_new. simpl. generalize 1%nat. induction cap; simpl; auto. Qed.

Lemma fub_try_push_run f c w f' w' :
  fub_try_push f c w = (PushOk f', w') -> Permutation (run_of (tasks f')) (cidx c :: run_of (tasks f)).
Proof.
  unfold fub_try_push. destruct (sm_insert (tasks f) c) as [key m| |] eqn:Hi; try discriminate.
  intros E; inversion E; subst. simpl. eapply run_of_insert; eauto.
Qed.

Lemma fu_push_run mrg u c w :
  Permutation (run_fu (fst (fu_push P mrg u c w))) (cidx c :: run_fu u) \/ run_fu (fst (fu_push P mrg u c w)) = run_fu u.
Proof.
  unfold fu_push. cbn [groups rem cursor gcap].
  set (u0 := {| groups := groups u; rem := if mrg then rem u else S (rem u); cursor := cursor u; gcap := gcap u |}).
  assert (H1 : let '(u1, w1) := match groups u with
                                | [] => let '(g, w0) := fub_new (pMinCap P) w in push_group u0 g w0
                                | _ :: _ => (u0, w) end in
               run_fu u1 = run_fu u).
  { destruct (groups u) eqn:Hg; [|unfold run_fu; simpl; rewrite Hg; auto].
    destruct (fub_new_eq' (pMinCap P) w) as (w0 & ->). unfold push_group. destruct (vec_grow _ _).
    unfold run_fu. simpl. rewrite Hg. unfold run_gs. simpl. rewrite run_of_new. reflexivity. }
  destruct (match groups u with [] => _ | _ :: _ => _ end) as [u1 w1].
  destruct (last_opt (groups u1)) as [lastg|] eqn:Hl; [|right; auto].
  destruct (last_split _ Hl) as [l1 Hs].
  destruct (fub_try_push lastg c w1) as [[g'| |] w2] eqn:Hp.
  - left. pose proof (fub_try_push_run _ _ _ Hp) as Hr. unfold run_fu in *. simpl.
    assert (Hupd : upd (groups u1) (pred (length (groups u1))) g' = l1 ++ [g']).
    { rewrite Hs, app_length. simpl. replace (pred (length l1 + 1)) with (length l1) by lia. clear.
      induction l1; simpl; auto. rewrite IHl1; auto. }
    rewrite Hupd, <- H1, Hs, !run_gs_app. unfold run_gs at 2 4. simpl. rewrite !app_nil_r.
    eapply Permutation_trans; [apply Permutation_app_head; exact Hr|].
    apply Permutation_sym. apply Permutation_middle.
  - destruct (fub_new_eq' (fub_cap lastg * pGrowth P) w2) as (w3 & ->).
    set (gnew := {| tasks := sm_new (fub_cap lastg * pGrowth P); blk := length (blocks w2) |}).
    destruct (fub_try_push gnew c w3) as [[g'| |] w4] eqn:Hp2; [|right; simpl; auto|right; simpl; auto].
    left. pose proof (fub_try_push_run _ _ _ Hp2) as Hr. simpl in Hr. rewrite run_of_new in Hr.
    unfold push_group. destruct (vec_grow _ _). unfold run_fu in *. simpl.
    rewrite run_gs_app, <- H1. unfold run_gs at 2. simpl. rewrite app_nil_r.
    eapply Permutation_trans; [apply Permutation_app_head; exact Hr|].
    apply Permutation_sym. apply Permutation_cons_append.
  - right. simpl. auto.
Qed.

(** ** the ordering invariant of FuturesOrdered *)
Definition fo_oinv (q : fo) : Prop := oinv P (run_fu (fu_inner q)) (fu_ord q).

Lemma fo_rebase_oinv q :
  fo_oinv q -> fo_oinv (fo_rebase P q) /\ nout (fu_ord (fo_rebase P q)) < msb P.
Proof.
  intros Hinv. unfold fo_rebase.
  pose proof (@rebase_below P (HW2 HP) (fu_ord q) (oi_out Hinv)) as Hb.
  destruct (msb_set P (nout (fu_ord q))); [|split; auto].
  split; auto. unfold fo_oinv. simpl.
  destruct (@oinv_rebase P (HW2 HP) _ _ Hinv) as [A _].
  replace (run_fu {| groups := map (fun g => {| tasks := sm_map_children (flip_child P) (tasks g); blk := blk g |}) (groups (fu_inner q));
                     rem := rem (fu_inner q); cursor := cursor (fu_inner q); gcap := gcap (fu_inner q) |})
    with (map (flip P) (run_fu (fu_inner q))); auto.
  unfold run_fu, run_gs. simpl. induction (groups (fu_inner q)) as [|g gs IH]; simpl; auto.
  rewrite map_app, IH. f_equal. unfold run_of, sm_map_children. simpl. clear.
  induction (slots (tasks g)) as [|[c|n] t IH]; simpl; auto. rewrite IH. reflexivity.
Qed.

Lemma fu_poll_next_run u t w :
  Forall (fun g => sm_wf (tasks g)) (groups u) ->
  let '(u', sp, _) := fu_poll_next P false u t w in
  match sp with
  | SItem _ c => Permutation (run_fu u) (cidx c :: run_fu u')
  | _ => Permutation (run_fu u) (run_fu u')
  end /\ Forall (fun g => sm_wf (tasks g)) (groups u').
Proof.
  intros Hwf. unfold fu_poll_next. destruct (groups u) eqn:Hg; [split; auto; rewrite Hg; auto|].
  rewrite <- Hg. apply fu_loop_run. rewrite Hg. auto.
Qed.

Lemma fo_loop_order n q t w :
  fo_oinv q -> Forall (fun g => sm_wf (tasks g)) (groups (fu_inner q)) ->
  nout (fu_ord q) < msb P -> ~ In (nout (fu_ord q)) (hidx (fu_ord q)) ->
  let '(q', sp, _) := fo_loop P n q t w in
  fo_oinv q' /\ Forall (fun g => sm_wf (tasks g)) (groups (fu_inner q'))
  /\ match sp with
     | SItem _ c => cidx c = nout (fu_ord q)
     | SNone => run_fu (fu_inner q') = [] -> oheap (fu_ord q') = []
     | SPending => True
     end.
Proof.
  revert q w. induction n as [|n IH]; intros q w Hinv Hwf Hb Hni; cbn [fo_loop].
  - splits; auto.
  - pose proof (@fu_poll_next_run (fu_inner q) t w Hwf) as Hr.
    destruct (fu_poll_next P false (fu_inner q) t w) as [[u sp] w1]. destruct Hr as [Hr Hwf'].
    destruct sp as [| |tk c]; cbn [fu_inner fu_ord].
    + unfold fo_oinv in *. simpl. splits; auto. eapply oinv_perm; eauto.
    + unfold fo_oinv in *. simpl. splits; auto; [eapply oinv_perm; eauto|].
      intros Hnil. eapply (@nothing_running_nothing_held P (HW2 HP)); eauto.
      rewrite <- Hnil. eapply oinv_perm; eauto.
    + assert (Hinv1 : oinv P (cidx c :: run_fu u) (fu_ord q)) by (eapply oinv_perm; eauto).
      destruct (Z.eqb_spec (cidx c) (nout (fu_ord q))) as [He|Hne].
      * assert (Hp : Permutation (held (run_fu (fu_inner q)) (fu_ord q)) (nout (fu_ord q) :: held (run_fu u) (fu_ord q))).
        { unfold held. rewrite <- He. change (cidx c :: run_fu u ++ hidx (fu_ord q)) with ((cidx c :: run_fu u) ++ hidx (fu_ord q)).
          apply Permutation_app_tail. exact Hr. }
        destruct (@oinv_release P (HW2 HP) _ _ (run_fu u) (ord_set_out (fu_ord q) (winc P (nout (fu_ord q)))) _ Hinv Hp (Permutation_refl _) eq_refl eq_refl) as [A _].
        unfold fo_oinv. simpl. splits; auto.
      * unfold ord_park. destruct (vec_grow (length (oheap (fu_ord q))) (hcap (fu_ord q))) as [c' a].
        set (o1 := {| oheap := oheap (fu_ord q) ++ [(cidx c, tk)]; hcap := c'; nin := nin (fu_ord q); nout := nout (fu_ord q) |}).
        pose proof (@oinv_park P _ _ _ tk c' Hinv1) as Hpark. fold o1 in Hpark.
        specialize (IH {| fu_inner := u; fu_ord := o1 |} (count_alloc a w1)).
        unfold fo_oinv in IH at 1. simpl in IH. specialize (IH Hpark Hwf' Hb).
        assert (Hni1 : ~ In (nout (fu_ord q)) (hidx o1)).
        { unfold hidx, o1. simpl. rewrite map_app, in_app_iff. simpl. intros [H|[H|[]]]; auto. }
        specialize (IH Hni1).
        destruct (fo_loop P n {| fu_inner := u; fu_ord := o1 |} t (count_alloc a w1)) as [[q' sp'] w'].
        exact IH.
Qed.

(** one poll of FuturesOrdered: the invariant is kept (also across re-basing); only the front is
    released; None means nothing is held *)
Theorem fo_poll_order q t w :
  fo_oinv q -> Forall (fun g => sm_wf (tasks g)) (groups (fu_inner q)) ->
  let '(q', sp, _) := fo_poll_next P q t w in
  fo_oinv q' /\ match sp with SNone => run_fu (fu_inner q') = [] -> oheap (fu_ord q') = [] | _ => True end.
Proof.
  intros Hinv Hwf. unfold fo_poll_next.
  destruct (fo_rebase_oinv Hinv) as [Hinv1 Hb].
  assert (Hwf1 : Forall (fun g => sm_wf (tasks g)) (groups (fu_inner (fo_rebase P q)))).
  { unfold fo_rebase. destruct (msb_set P (nout (fu_ord q))); auto. simpl.
    rewrite Forall_map. eapply Forall_impl; [|exact Hwf]. intros g Hg. simpl. apply sm_map_children_wf; auto. }
  set (q1 := fo_rebase P q) in *.
  destruct (ord_try_release P (fu_ord q1)) as [[tk o]|] eqn:Hr.
  - destruct (@try_release_sound P (HW2 HP) _ _ _ _ Hinv1 Hr) as (A & _). split; auto.
  - assert (Hni : ~ In (nout (fu_ord q1)) (hidx (fu_ord q1))).
    { intros Hin. destruct (@try_release_complete P (HW2 HP) _ _ Hinv1 Hb Hin) as (t0 & o' & Hc). congruence. }
    pose proof (@fo_loop_order (S (rem (fu_inner q1))) q1 t w Hinv1 Hwf1 Hb Hni) as H.
    destruct (fo_loop P (S (rem (fu_inner q1))) q1 t w) as [[q' sp] w'].
    destruct H as (A & B & C). split; auto. destruct sp; auto.
Qed.

(** push_back / push_front of FuturesOrdered (the push itself adds exactly the new index to the
    running set: [fu_push_run]; its other alternative is the unreachable Stuck arm) *)
Theorem fo_push_order (front : bool) (q : fo) (c : child) (w : world) :
  fo_oinv q -> Z.of_nat (length (held (run_fu (fu_inner q)) (fu_ord q))) + 1 < msb P ->
  let idx := if front then wdec P (nout (fu_ord q)) else nin (fu_ord q) in
  Permutation (run_fu (fst (fu_push P false (fu_inner q) (child_set_idx c idx) w))) (idx :: run_fu (fu_inner q)) ->
  fo_oinv (fst (fo_push P front q c w)).
Proof.
  intros Hinv Hroom idx Hperm. unfold fo_push. fold idx.
  destruct (fu_push P false (fu_inner q) (child_set_idx c idx) w) as [u w1].
  simpl in *. unfold fo_oinv. simpl. unfold idx in *.
  destruct front.
  - destruct (@oinv_push_front P (HW2 HP) _ _ Hinv Hroom) as (A & _).
    eapply oinv_perm; [apply Permutation_sym; exact Hperm|]. exact A.
  - destruct (@oinv_push_back P (HW2 HP) _ _ Hinv Hroom) as (A & _).
    eapply oinv_perm; [apply Permutation_sym; exact Hperm|]. exact A.
Qed.

(** ** from_iter *)
Lemma run_gs_length gs : Forall (fun g => sm_wf (tasks g)) gs -> length (run_gs gs) = total gs.
Proof.
  induction 1 as [|g gs Hg _ IH]; simpl; auto. unfold run_gs in *. simpl. rewrite app_length, IH. f_equal.
  unfold run_of, fub_len. rewrite map_length, occ_list_length.
  destruct Hg as [(l & Hc & Hnd & Hv & Hf)]. pose proof (vacant_count Hnd Hv). lia.
Qed.

(** under the structural invariant a push always adds the new index (the other alternative of
    [fu_push_run] is the unreachable Stuck arm) *)
Lemma fu_push_run_ok u c w :
  winv (cnt (blks (groups u))) None w -> fu_ok false u ->
  Permutation (run_fu (fst (fu_push P false u c w))) (cidx c :: run_fu u).
Proof.
  intros Hw Hok. destruct (fu_push_run false u c w) as [H|H]; auto. exfalso.
  pose proof (@fu_push_spec P HP false u c w Hw Hok) as Hs.
  destruct (fu_push P false u c w) as [u' w']. destruct Hs as (A & B & C & D). simpl in H.
  pose proof (run_gs_length (fo_wf B)) as L1. pose proof (run_gs_length (fo_wf Hok)) as L2.
  unfold run_fu in H. rewrite H in L1. lia.
Qed.

Lemma fu_push_fold_run l u w :
  winv (cnt (blks (groups u))) None w -> fu_ok false u ->
  Permutation (run_fu (fst (fold_left (fun uw c => fu_push P false (fst uw) c (snd uw)) l (u, w)))) (map cidx l ++ run_fu u).
Proof.
  revert u w. induction l as [|c l IH]; intros u w Hw Hok; simpl; auto.
  pose proof (@fu_push_spec P HP false u c w Hw Hok) as Hs. pose proof (fu_push_run_ok c Hw Hok) as Hr.
  destruct (fu_push P false u c w) as [u1 w1]. destruct Hs as (A & B & _). simpl in *.
  eapply Permutation_trans; [apply IH; auto|].
  eapply Permutation_trans; [apply Permutation_app_head; exact Hr|]. apply Permutation_sym. apply Permutation_middle.
Qed.

Theorem fo_from_list_order h l w :
  winv (cnt []) None w -> Z.of_nat (length l) < msb P -> fo_oinv (fst (fo_from_list P h l w)).
Proof.
  intros Hw Hlen. pose proof (@wmod_2msb P (HW2 HP)) as Hwm. pose proof (@msb_pos P (HW2 HP)) as Hm.
  unfold fo_from_list, fu_from_list.
  pose proof (@fu_with_capacity_spec false (Nat.max h (pMinCap P)) w Hw) as H0.
  assert (Hrun0 : run_fu (fst (fu_with_capacity (Nat.max h (pMinCap P)) w)) = []).
  { unfold fu_with_capacity. destruct (Nat.eqb _ 0); [reflexivity|].
    destruct (fub_new_eq' (Nat.max h (pMinCap P)) w) as (w0 & ->).
    unfold run_fu, run_gs. simpl. rewrite run_of_new. reflexivity. }
  destruct (fu_with_capacity (Nat.max h (pMinCap P)) w) as [u0 w0].
  destruct H0 as (A & B & _). simpl in Hrun0.
  pose proof (fu_push_fold_run (index_children P l 0) A B) as Hp.
  destruct (fold_left _ (index_children P l 0) (u0, w0)) as [u w1]. cbn [fst snd] in *.
  rewrite Hrun0, app_nil_r in Hp. rewrite index_children_cidx in Hp by lia.
  unfold fo_oinv. simpl. eapply oinv_perm; [apply Permutation_sym; exact Hp|].
  assert (Hheld : held (map (fun k => 0 + Z.of_nat k) (seq 0 (length l)))
                       {| oheap := []; hcap := 0; nin := Z.of_nat (length l) mod wmod P; nout := 0 |}
                  = zseq (length l)).
  { unfold held, hidx. simpl. rewrite app_nil_r. unfold zseq. apply map_ext. intros; lia. }
  constructor; rewrite ?Hheld; simpl; rewrite ?zseq_length.
  - lia.
  - reflexivity.
  - apply Forall_forall. intros x Hx. apply zseq_In in Hx. lia.
  - exact Hlen.
  - unfold off. simpl. rewrite (map_ext_in _ (fun x => x)); [rewrite map_id; apply Permutation_refl|].
    intros x Hx. apply zseq_In in Hx. rewrite Z.sub_0_r. apply Z.mod_small. lia.
Qed.

(** and a push of FuturesOrdered keeps the order invariant, with no side condition on the inner push *)
Theorem fo_push_order_ok (front : bool) (q : fo) (c : child) (w : world) :
  winv (cnt (blks (groups (fu_inner q)))) None w -> fu_ok false (fu_inner q) ->
  fo_oinv q -> Z.of_nat (length (held (run_fu (fu_inner q)) (fu_ord q))) + 1 < msb P ->
  fo_oinv (fst (fo_push P front q c w)).
Proof.
  intros Hw Hok Hinv Hroom. apply fo_push_order; auto.
  pose proof (@fu_push_run_ok (fu_inner q)
                (child_set_idx c (if front then wdec P (nout (fu_ord q)) else nin (fu_ord q))) w Hw Hok) as H.
  exact H.
Qed.

End WithParams.
