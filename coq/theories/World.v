(** * World: the heap of shared waker blocks, the table of outstanding handles, the event log *)
From FB Require Import Base Syntax.

(** One shared waker block ([WakerList] allocation).  It outlives its collection while
    cloned wakers exist. *)
Record block := {
  bcap : nat;
  bflags : list bool;      (* per slot: "already queued" *)
  bqueue : list nat;       (* ready queue, FIFO, head first *)
  breg : option nat;       (* DiatomicWaker: the registered task waker (one-shot) *)
  bstrong : nat;           (* manual reference count *)
  bfreed : bool;
  (* ghost (no influence on behaviour): *)
  blast : option nat;      (* the task waker of the most recent [register] on this block *)
  btw : bool;              (* that task waker was invoked since that registration *)
}.

Inductive handle := HTask (w : nat) | HChild (b s : nat).

(** ghost counters (never read by the model's control flow): child polls, enqueues of a slot
    into a ready queue, and the three reasons for an enqueue: accepted pushes, child-waker
    invocations, re-arms after a merge item *)
Record ghost := { gpolls : nat; genq : nat; gpush : nat; gwake : nat; gitems : nat;
                  gdone : nat (* polls of a child that had already given its final answer *) }.

Record world := {
  blocks : list block;
  handles : list (option handle);
  log : list event;        (* newest first *)
  winj : injection;        (* injections of the op being executed *)
  regk : nat;              (* register calls so far in this op *)
  popk : nat;              (* pop calls so far in this op *)
  nalloc : nat;            (* allocator calls so far in this op *)
  wghost : ghost;
}.

Definition emit (e : event) (w : world) : world :=
  {| blocks := blocks w; handles := handles w; log := e :: log w;
     winj := winj w; regk := regk w; popk := popk w; nalloc := nalloc w; wghost := wghost w |}.

Definition set_blocks (bs : list block) (w : world) : world :=
  {| blocks := bs; handles := handles w; log := log w;
     winj := winj w; regk := regk w; popk := popk w; nalloc := nalloc w; wghost := wghost w |}.

Definition set_handles (hs : list (option handle)) (w : world) : world :=
  {| blocks := blocks w; handles := hs; log := log w;
     winj := winj w; regk := regk w; popk := popk w; nalloc := nalloc w; wghost := wghost w |}.

Definition set_regk (k : nat) (w : world) : world :=
  {| blocks := blocks w; handles := handles w; log := log w;
     winj := winj w; regk := k; popk := popk w; nalloc := nalloc w; wghost := wghost w |}.

Definition set_popk (k : nat) (w : world) : world :=
  {| blocks := blocks w; handles := handles w; log := log w;
     winj := winj w; regk := regk w; popk := k; nalloc := nalloc w; wghost := wghost w |}.

Definition set_ghost (g : ghost) (w : world) : world :=
  {| blocks := blocks w; handles := handles w; log := log w;
     winj := winj w; regk := regk w; popk := popk w; nalloc := nalloc w; wghost := g |}.

Definition begin_op (i : injection) (w : world) : world :=
  {| blocks := blocks w; handles := handles w; log := [];
     winj := i; regk := 0; popk := 0; nalloc := 0; wghost := wghost w |}.

Definition count_alloc (n : nat) (w : world) : world :=
  {| blocks := blocks w; handles := handles w; log := log w;
     winj := winj w; regk := regk w; popk := popk w; nalloc := n + nalloc w; wghost := wghost w |}.

Definition g_poll (w : world) : world :=
  let g := wghost w in set_ghost {| gpolls := S (gpolls g); genq := genq g; gpush := gpush g; gwake := gwake g; gitems := gitems g; gdone := gdone g |} w.
Definition g_enq (w : world) : world :=
  let g := wghost w in set_ghost {| gpolls := gpolls g; genq := S (genq g); gpush := gpush g; gwake := gwake g; gitems := gitems g; gdone := gdone g |} w.
Definition g_push (w : world) : world :=
  let g := wghost w in set_ghost {| gpolls := gpolls g; genq := genq g; gpush := S (gpush g); gwake := gwake g; gitems := gitems g; gdone := gdone g |} w.
Definition g_wake (w : world) : world :=
  let g := wghost w in set_ghost {| gpolls := gpolls g; genq := genq g; gpush := gpush g; gwake := S (gwake g); gitems := gitems g; gdone := gdone g |} w.
Definition g_item (w : world) : world :=
  let g := wghost w in set_ghost {| gpolls := gpolls g; genq := genq g; gpush := gpush g; gwake := gwake g; gitems := S (gitems g); gdone := gdone g |} w.

Definition g_done (w : world) : world :=
  let g := wghost w in set_ghost {| gpolls := gpolls g; genq := genq g; gpush := gpush g; gwake := gwake g; gitems := gitems g; gdone := S (gdone g) |} w.

Definition get_blk (w : world) (b : nat) : option block := nth_error (blocks w) b.

Definition put_blk (b : nat) (k : block) (w : world) : world :=
  set_blocks (upd (blocks w) b k) w.

Definition blk_set_flags (k : block) f := {| bcap := bcap k; bflags := f; bqueue := bqueue k; breg := breg k; bstrong := bstrong k; bfreed := bfreed k; blast := blast k; btw := btw k |}.
Definition blk_set_queue (k : block) q := {| bcap := bcap k; bflags := bflags k; bqueue := q; breg := breg k; bstrong := bstrong k; bfreed := bfreed k; blast := blast k; btw := btw k |}.
Definition blk_set_reg (k : block) r := {| bcap := bcap k; bflags := bflags k; bqueue := bqueue k; breg := r; bstrong := bstrong k; bfreed := bfreed k; blast := blast k; btw := btw k |}.
Definition blk_set_strong (k : block) n := {| bcap := bcap k; bflags := bflags k; bqueue := bqueue k; breg := breg k; bstrong := n; bfreed := bfreed k; blast := blast k; btw := btw k |}.
Definition blk_set_freed (k : block) f := {| bcap := bcap k; bflags := bflags k; bqueue := bqueue k; breg := breg k; bstrong := bstrong k; bfreed := f; blast := blast k; btw := btw k |}.
(** ghost updates *)
Definition blk_set_last (k : block) l := {| bcap := bcap k; bflags := bflags k; bqueue := bqueue k; breg := breg k; bstrong := bstrong k; bfreed := bfreed k; blast := l; btw := false |}.
Definition blk_set_tw (k : block) := {| bcap := bcap k; bflags := bflags k; bqueue := bqueue k; breg := breg k; bstrong := bstrong k; bfreed := bfreed k; blast := blast k; btw := true |}.

Definition new_block (cap : nat) : block :=
  {| bcap := cap; bflags := repeat false cap; bqueue := []; breg := None; bstrong := 1; bfreed := false;
     blast := None; btw := false |}.

(** [WakerList::new]: returns the uid of the new block *)
Definition alloc_block (cap : nat) (w : world) : nat * world :=
  let b := length (blocks w) in
  (b, emit (EBlkAlloc b cap) (count_alloc 1 (set_blocks (blocks w ++ [new_block cap]) w))).

(** [DiatomicWaker::notify], sequential reading: one-shot *)
Definition notify (b : nat) (w : world) : world :=
  match get_blk w b with
  | Some k =>
      match breg k with
      | Some t => emit (ETWake t CChild) (put_blk b (blk_set_tw (blk_set_reg k None)) w)
      | None => w
      end
  | None => w
  end.

(** [WakerList::push] / the flag-and-enqueue half of [wake_by_ref]; returns whether it enqueued *)
Definition enqueue_slot (b s : nat) (w : world) : bool * world :=
  match get_blk w b with
  | Some k =>
      match nth_error (bflags k) s with
      | Some false =>
          (true, g_enq (put_blk b (blk_set_queue (blk_set_flags k (upd (bflags k) s true)) (bqueue k ++ [s])) w))
      | _ => (false, w)
      end
  | None => (false, w)
  end.

(** waker vtable [wake_by_ref] on item (b, s) *)
Definition wake_slot (b s : nat) (w : world) : world :=
  let w := g_wake w in
  match get_blk w b with
  | Some k =>
      if bfreed k then emit EVtBad w
      else let '(q, w1) := enqueue_slot b s w in
           if q then notify b w1 else w1
  | None => emit EVtBad w
  end.

(** decrement of the reference count; the last owner frees the block *)
Definition dec_strong (b : nat) (w : world) : world :=
  match get_blk w b with
  | Some k =>
      if bfreed k then emit EVtBad w
      else match bstrong k with
           | 1 => emit (EBlkFree b) (put_blk b (blk_set_freed (blk_set_strong k 0) true) w)
           | n => put_blk b (blk_set_strong k (pred n)) w
           end
  | None => emit EVtBad w
  end.

Definition inc_strong (b : nat) (w : world) : world :=
  match get_blk w b with
  | Some k =>
      if bfreed k then emit EVtBad w
      else put_blk b (blk_set_strong k (S (bstrong k))) w
  | None => emit EVtBad w
  end.

Definition get_handle (w : world) (h : nat) : option handle :=
  match nth_error (handles w) h with Some (Some x) => Some x | _ => None end.

Definition add_handle (x : handle) (w : world) : world :=
  set_handles (handles w ++ [Some x]) w.

Definition kill_handle (h : nat) (w : world) : world :=
  set_handles (upd (handles w) h None) w.

Definition wake_ref_handle (x : handle) (w : world) : world :=
  match x with
  | HTask t => emit (ETWake t CChild) w
  | HChild b s => wake_slot b s w
  end.

Definition drop_handle_val (x : handle) (w : world) : world :=
  match x with
  | HTask _ => w
  | HChild b _ => dec_strong b w
  end.

Definition clone_handle_val (x : handle) (w : world) : world :=
  match x with
  | HTask _ => add_handle x w
  | HChild b _ => add_handle x (inc_strong b w)
  end.

(** one action; [cw] is the waker of the current Context, if any *)
Definition do_act (cw : option handle) (a : act) (w : world) : world :=
  match a with
  | ASelf => match cw with Some x => wake_ref_handle x w | None => w end
  | ACloneSelf => match cw with Some x => clone_handle_val x w | None => w end
  | AWakeRef h => match get_handle w h with Some x => wake_ref_handle x w | None => w end
  | AWake h => match get_handle w h with
               | Some x => drop_handle_val x (wake_ref_handle x (kill_handle h w))
               | None => w end
  | ADrop h => match get_handle w h with
               | Some x => drop_handle_val x (kill_handle h w)
               | None => w end
  | AClone h => match get_handle w h with Some x => clone_handle_val x w | None => w end
  end.

Definition do_acts (cw : option handle) (l : list act) (w : world) : world :=
  fold_left (fun w a => do_act cw a w) l w.

Definition run_inj (p : ipoint) (k : nat) (sl : option (nat * nat)) (w : world) : world :=
  match find_inj p k (inj_pts (winj w)) with
  | [] => w
  | acts => do_acts None acts (emit (EInj p k sl) w)
  end.

Definition forced_inc (k : nat) (w : world) : bool :=
  existsb (Nat.eqb k) (inj_inc (winj w)).

Definition empty_world : world :=
  {| blocks := []; handles := []; log := []; winj := no_inj; regk := 0; popk := 0; nalloc := 0;
     wghost := {| gpolls := 0; genq := 0; gpush := 0; gwake := 0; gitems := 0; gdone := 0 |} |}.

(** the crate wakes the task itself (budget exhausted / inconsistent queue) while polling
    the group with block [b] *)
Definition self_wake (b t : nat) (w : world) : world :=
  let w := match get_blk w b with
           | Some k => put_blk b (blk_set_tw k) w
           | None => w
           end in
  emit (ETWake t CCrate) w.

(** cleanup: drop every live handle in increasing order *)
Fixpoint cleanup_from (n : nat) (h : nat) (w : world) : world :=
  match n with
  | O => w
  | S n' => cleanup_from n' (S h) (do_act None (ADrop h) w)
  end.

Definition cleanup (w : world) : world := cleanup_from (length (handles w)) 0 w.
