(** * FubProofs: [FuturesUnorderedBounded] / [MergeBounded] preserve the world invariant and
      the slot-map invariant *)
From FB Require Import Base Syntax World SlotMap Fub Tactics SlotMapProofs WorldProofs.
Set Implicit Arguments.

(** a group: well-formed slot map, and the collection's reference on its waker block *)
Definition fub_ok (own : nat -> nat) (f : fub) : Prop := sm_wf (tasks f) /\ 0 < own (blk f).

Ltac fok := match goal with |- fub_ok _ _ => split; simpl; auto end.

(** ** pop: dequeue, (injection window), clear the flag *)
Lemma winv_dequeue own w b kb i q :
  winv own None w -> get_blk w b = Some kb -> bqueue kb = i :: q ->
  winv own (Some (b, i)) (put_blk b (blk_set_queue kb q) w).
Proof.
  intros Hw Hk Hq. eapply winv_put_blk; eauto.
  - destruct (wi_blk Hw _ Hk) as [A1 A2 A3 A4 A5 A6 A7]. rewrite Hq in *.
    inversion A2; subst. constructor; simpl; auto.
    + intros j. rewrite A3. simpl. split.
      * intros [[<-|Hin]|Hc]; auto; discriminate.
      * intros [Hin|Hc]; auto. inversion Hc; subst. auto.
    + intros j Hc. inversion Hc; subst. split; auto.
      assert (Hf : nth_error (bflags kb) j = Some true) by (apply A3; left; left; reflexivity).
      apply nth_error_Some_lt in Hf. lia.
  - intros b' j Hne. split; intros Hc; [discriminate|]. inversion Hc; subst; congruence.
Qed.

Lemma winv_clear_flag own w b i :
  winv own (Some (b, i)) w -> winv own None (clear_flag b i w).
Proof.
  intros Hw. unfold clear_flag. destruct (get_blk w b) as [k|] eqn:Hk.
  - eapply winv_put_blk; eauto.
    + destruct (wi_blk Hw _ Hk) as [A1 A2 A3 A4 A5 A6 A7].
      destruct (A4 i eq_refl) as [Hni Hlt].
      constructor; simpl; auto.
      * rewrite upd_length; auto.
      * intros j. rewrite nth_error_upd. destruct (Nat.eqb_spec i j) as [<-|Hne].
        -- destruct (Nat.ltb i (length (bflags k))); split; try discriminate; intros [|]; try contradiction; discriminate.
        -- rewrite A3. split; [intros [|Hc]; auto; inversion Hc; congruence | intros [|]; auto; discriminate].
      * intros j Hc; discriminate.
    + intros b' j Hne. split; intros Hc; [inversion Hc; subst; congruence | discriminate].
  - destruct Hw as [H1 H2 H3 H4 H5]. constructor; auto.
    intros b' k' Hk'. eapply blk_wf_cur_irrel; [|eauto].
    intros j. split; intros Hc; [inversion Hc; subst; congruence | discriminate].
Qed.

Lemma winv_pop own b w :
  winv own None w -> 0 < own b -> winv own None (snd (pop b w)).
Proof.
  intros Hw Hown. unfold pop.
  assert (Hw0 : winv own None (set_popk (S (popk w)) w)) by (apply winv_set_popk; auto).
  destruct (forced_inc (S (popk w)) (set_popk (S (popk w)) w)); simpl.
  - apply winv_run_inj; auto.
  - change (get_blk (set_popk (S (popk w)) w) b) with (get_blk w b).
    assert (Hpos : 0 < own b + hcount (handles w) b) by lia.
    destruct (own_pos_get _ Hw Hpos) as (kb & Hk & _). rewrite Hk.
    destruct (bqueue kb) as [|i q] eqn:Hq; simpl.
    + apply winv_run_inj; auto.
    + apply winv_run_inj. apply winv_clear_flag. apply winv_run_inj.
      eapply winv_dequeue; eauto.
Qed.

Lemma winv_register own b t w : winv own None w -> 0 < own b -> winv own None (register b t w).
Proof.
  intros Hw Hown. unfold register.
  assert (Hpos : 0 < own b + hcount (handles w) b) by lia.
  destruct (own_pos_get _ Hw Hpos) as (k & Hk & _). rewrite Hk.
  apply winv_run_inj. apply winv_set_regk.
  eapply winv_put_blk_same; eauto.
  destruct (wi_blk Hw _ Hk) as [A1 A2 A3 A4 A5 A6 A7].
  constructor; simpl; auto; try (intros; discriminate).
Qed.

Lemma winv_self_wake own cur b t w : winv own cur w -> winv own cur (self_wake b t w).
Proof.
  intros Hw. unfold self_wake. apply winv_emit; auto.
  destruct (get_blk w b) as [k|] eqn:Hk; auto.
  eapply winv_put_blk_same; eauto.
  destruct (wi_blk Hw _ Hk) as [A1 A2 A3 A4 A5 A6 A7].
  constructor; simpl; auto.
Qed.

(** ** one child poll *)
Lemma winv_poll_child own cur k c b s w :
  winv own cur w -> 0 < own b -> winv own cur (snd (poll_child k c b s w)).
Proof.
  intros Hw Hown. unfold poll_child.
  assert (Hw1 : winv own cur (emit (ECPoll (cid c) b s (b, s)) (g_poll w))).
  { apply winv_emit; auto. apply winv_g_poll; auto. }
  destruct (cdone c); simpl.
  - apply winv_emit; auto. apply winv_g_done; auto.
  - destruct (cscript c) as [|[acts r0] rest]; simpl.
    + apply winv_emit; auto.
    + apply winv_emit; auto. apply winv_do_acts; auto.
Qed.

Lemma poll_child_cid k c b s w : cid (fst (fst (poll_child k c b s w))) = cid c.
Proof.
  unfold poll_child. destruct (cdone c); simpl; auto.
  destruct (cscript c) as [|[acts r0] rest]; simpl; auto.
Qed.

(** ** drain *)
Lemma drain_spec own k n f t w :
  winv own None w -> fub_ok own f ->
  let '(f', pr, w') := drain k n f t w in
  winv own None w' /\ fub_ok own f' /\ blk f' = blk f /\ sm_cap (tasks f') = sm_cap (tasks f)
  /\ filled (tasks f') = filled (tasks f)
  /\ match pr with
     | PReady i c r => sm_get (tasks f') i = Some c /\ is_ready r = true
     | PNone => False
     | PPending => True
     end.
Proof.
  revert f w. induction n as [|n IH]; intros f w Hw Hok; pose proof Hok as [Hwf Hown]; simpl.
  - splits; auto. apply winv_self_wake; auto.
  - destruct (pop (blk f) w) as [pr w1] eqn:Hp.
    assert (Hw1 : winv own None w1).
    { replace w1 with (snd (pop (blk f) w)) by (rewrite Hp; reflexivity). apply winv_pop; auto. }
    destruct pr as [| |i].
    + splits; auto.
    + splits; auto. apply winv_self_wake; auto.
    + destruct (sm_get (tasks f) i) as [c|] eqn:Hg.
      * destruct (poll_child k c (blk f) i w1) as [[c' r] w2] eqn:Hpc.
        assert (Hw2 : winv own None w2).
        { replace w2 with (snd (poll_child k c (blk f) i w1)) by (rewrite Hpc; reflexivity).
          apply winv_poll_child; auto. }
        assert (Hok' : fub_ok own {| tasks := sm_set (tasks f) i c'; blk := blk f |}).
        { split; simpl; auto. eapply sm_set_wf; eauto. }
        destruct (is_ready r) eqn:Hr.
        -- splits; simpl; auto; try apply Hok'.
           ++ apply sm_set_cap.
           ++ rewrite sm_get_set, Nat.eqb_refl.
              apply sm_get_lt in Hg. destruct (Nat.ltb_spec i (sm_cap (tasks f))); auto; lia.
        -- specialize (IH _ _ Hw2 Hok').
           destruct (drain k n {| tasks := sm_set (tasks f) i c'; blk := blk f |} t w2) as [[f' pr'] w'].
           simpl in IH. destruct IH as (A & B & C & D & E & F).
           splits; auto; try apply B.
           rewrite D. apply sm_set_cap.
      * apply IH; auto.
Qed.

Section WithParams.
Variable P : params.

Lemma poll_inner_no_remove_spec own k f t w :
  winv own None w -> fub_ok own f ->
  let '(f', pr, w') := poll_inner_no_remove P k f t w in
  winv own None w' /\ fub_ok own f' /\ blk f' = blk f /\ sm_cap (tasks f') = sm_cap (tasks f)
  /\ filled (tasks f') = filled (tasks f)
  /\ match pr with
     | PReady i c r => sm_get (tasks f') i = Some c /\ is_ready r = true
     | PNone => fub_len f = 0 /\ f' = f /\ w' = w
     | PPending => fub_len f <> 0
     end.
Proof.
  intros Hw Hok. unfold poll_inner_no_remove.
  destruct (Nat.eqb_spec (fub_len f) 0) as [Hz|Hnz].
  - splits; auto; apply Hok.
  - pose proof (@drain_spec own k (pB P) f t (register (blk f) t w)) as H.
    destruct (drain k (pB P) f t (register (blk f) t w)) as [[f' pr] w'].
    destruct H as (A & B & C & D & E & F); auto.
    + apply winv_register; auto. apply Hok.
    + splits; auto; try apply B. destruct pr; auto. contradiction.
Qed.

Lemma fub_remove_spec own cur f i w :
  winv own cur w -> fub_ok own f ->
  let '(f', w') := fub_remove f i w in
  winv own cur w' /\ fub_ok own f' /\ blk f' = blk f /\ sm_cap (tasks f') = sm_cap (tasks f)
  /\ tasks f' = sm_remove (tasks f) i.
Proof.
  intros Hw [Hwf Hown]. unfold fub_remove.
  destruct (sm_get (tasks f) i) as [c|] eqn:Hg.
  - destruct (sm_remove_spec i Hwf) as (A & B & C).
    splits; simpl; auto; try fok. apply winv_emit; auto.
  - destruct (sm_remove_spec i Hwf) as (A & B & C). rewrite Hg in C.
    splits; auto; try fok.
Qed.

Lemma poll_inner_spec own k f t w :
  winv own None w -> fub_ok own f ->
  let '(f', pr, w') := poll_inner P k f t w in
  winv own None w' /\ fub_ok own f' /\ blk f' = blk f /\ sm_cap (tasks f') = sm_cap (tasks f)
  /\ match pr with
     | PReady i c r => is_ready r = true /\ filled (tasks f') = pred (filled (tasks f)) /\ 0 < filled (tasks f)
                       /\ sm_get (tasks f') i = None
     | PNone => fub_len f = 0 /\ f' = f /\ w' = w
     | PPending => fub_len f <> 0 /\ filled (tasks f') = filled (tasks f)
     end.
Proof.
  intros Hw Hok. unfold poll_inner.
  pose proof (@poll_inner_no_remove_spec own k f t w Hw Hok) as H.
  destruct (poll_inner_no_remove P k f t w) as [[f1 pr] w1].
  destruct H as (A & B & C & D & E & F).
  destruct pr as [| |i c r].
  - splits; auto; apply B.
  - splits; auto; try apply B; apply F.
  - pose proof (@fub_remove_spec own None f1 i w1 A B) as H.
    destruct (fub_remove f1 i w1) as [f2 w2]. destruct H as (A2 & B2 & C2 & D2 & E2).
    destruct F as [Fg Fr].
    splits; auto; try apply B2; try congruence.
    + rewrite E2. destruct B as [Bwf _]. destruct (sm_remove_spec i Bwf) as (_ & _ & R).
      rewrite Fg in R. destruct R as (R1 & R2 & _). rewrite R1. congruence.
    + destruct B as [Bwf _]. destruct (sm_remove_spec i Bwf) as (_ & _ & R).
      rewrite Fg in R. destruct R as (R1 & R2 & _). congruence.
    + rewrite E2. rewrite sm_get_remove, Nat.eqb_refl. reflexivity.
Qed.

Lemma fub_poll_next_spec own k f t w :
  winv own None w -> fub_ok own f ->
  let '(f', sp, w') := fub_poll_next P k f t w in
  winv own None w' /\ fub_ok own f' /\ blk f' = blk f /\ sm_cap (tasks f') = sm_cap (tasks f)
  /\ match sp with
     | SItem _ _ => filled (tasks f') = pred (filled (tasks f)) /\ 0 < filled (tasks f)
     | SNone => fub_len f = 0 /\ f' = f /\ w' = w
     | SPending => fub_len f <> 0 /\ filled (tasks f') = filled (tasks f)
     end.
Proof.
  intros Hw Hok. unfold fub_poll_next.
  pose proof (@poll_inner_spec own k f t w Hw Hok) as H.
  destruct (poll_inner P k f t w) as [[f1 pr] w1].
  destruct H as (A & B & C & D & F).
  destruct pr as [| |i c r]; splits; auto; try apply B; try apply F.
Qed.

Lemma mb_poll_loop_spec own n f t w :
  winv own None w -> fub_ok own f -> fub_len f < n ->
  let '(f', sp, w') := mb_poll_loop P n f t w in
  winv own None w' /\ fub_ok own f' /\ blk f' = blk f /\ sm_cap (tasks f') = sm_cap (tasks f)
  /\ fub_len f' <= fub_len f
  /\ match sp with
     | SItem _ _ => fub_len f' <> 0
     | SNone => fub_len f' = 0
     | SPending => fub_len f' <> 0
     end.
Proof.
  revert f w. induction n as [|n IH]; intros f w Hw Hok Hlen; [lia|]. simpl.
  pose proof (@poll_inner_no_remove_spec own KSrc f t w Hw Hok) as H.
  destruct (poll_inner_no_remove P KSrc f t w) as [[f1 pr] w1].
  destruct H as (A & B & C & D & E & F).
  destruct pr as [| |i c r].
  - splits; auto. unfold fub_len in *; lia. unfold fub_len in *. lia.
  - destruct F as (F1 & -> & ->). splits; auto.
  - destruct F as [Fg Fr].
    assert (Hrm : forall w2, winv own None w2 ->
              let '(f2, w3) := fub_remove f1 i w2 in
              winv own None w3 /\ fub_ok own f2 /\ blk f2 = blk f1 /\ sm_cap (tasks f2) = sm_cap (tasks f1)
              /\ fub_len f2 = pred (fub_len f1) /\ 0 < fub_len f1).
    { intros w2 Hw2. pose proof (@fub_remove_spec own None f1 i w2 Hw2 B) as H.
      destruct (fub_remove f1 i w2) as [f2 w3]. destruct H as (A2 & B2 & C2 & D2 & E2).
      splits; auto.
      - unfold fub_len. rewrite E2. destruct B as [Bwf _].
        destruct (sm_remove_spec i Bwf) as (_ & _ & R). rewrite Fg in R. apply R.
      - unfold fub_len. destruct B as [Bwf _].
        destruct (sm_remove_spec i Bwf) as (_ & _ & R). rewrite Fg in R. apply R. }
    assert (Hgo : let '(f2, w3) := fub_remove f1 i w1 in
                  let '(f', sp, w') := mb_poll_loop P n f2 t w3 in
                  winv own None w' /\ fub_ok own f' /\ blk f' = blk f /\ sm_cap (tasks f') = sm_cap (tasks f)
                  /\ fub_len f' <= fub_len f
                  /\ match sp with
                     | SItem _ _ => fub_len f' <> 0
                     | SNone => fub_len f' = 0
                     | SPending => fub_len f' <> 0
                     end).
    { specialize (Hrm w1 A). destruct (fub_remove f1 i w1) as [f2 w3].
      destruct Hrm as (A2 & B2 & C2 & D2 & E2 & G2).
      assert (Hlt : fub_len f2 < n) by (unfold fub_len in *; lia).
      specialize (IH f2 w3 A2 B2 Hlt).
      destruct (mb_poll_loop P n f2 t w3) as [[f' sp] w'].
      destruct IH as (I1 & I2 & I3 & I4 & I5 & I6).
      splits; auto; try congruence. unfold fub_len in *; lia. }
    destruct r; try (destruct (fub_remove f1 i w1) as [f2 w3]; exact Hgo).
    (* RI: an item; the source is re-armed *)
    splits; auto.
    + apply winv_enqueue. apply winv_g_item; auto.
    + unfold fub_len in *; lia.
    + unfold fub_len in *. intros Hz. destruct B as [Bwf _].
      destruct (sm_remove_spec i Bwf) as (_ & _ & R). rewrite Fg in R. lia.
Qed.

Lemma mb_poll_next_spec own f t w :
  winv own None w -> fub_ok own f ->
  let '(f', sp, w') := mb_poll_next P f t w in
  winv own None w' /\ fub_ok own f' /\ blk f' = blk f /\ sm_cap (tasks f') = sm_cap (tasks f)
  /\ fub_len f' <= fub_len f
  /\ match sp with
     | SItem _ _ => fub_len f' <> 0
     | SNone => fub_len f' = 0
     | SPending => fub_len f' <> 0
     end.
Proof. intros Hw Hok. apply mb_poll_loop_spec; auto. Qed.

End WithParams.

(** ** construction, push, drop *)
Lemma fub_new_spec own cap w :
  winv own None w ->
  let '(f, w') := fub_new cap w in
  winv (add1 (blk f) own) None w' /\ sm_wf (tasks f) /\ blk f = length (blocks w)
  /\ sm_cap (tasks f) = cap /\ fub_len f = 0.
Proof.
  intros Hw. unfold fub_new.
  pose proof (@winv_alloc_block own None cap (count_alloc (if Nat.eqb cap 0 then 0 else 1) w)) as H.
  destruct (alloc_block cap (count_alloc (if Nat.eqb cap 0 then 0 else 1) w)) as [b w'] eqn:Ha.
  simpl in H. destruct H as [H1 H2]; [apply winv_count_alloc; auto | intros; discriminate |].
  subst b. simpl. splits; auto.
  - apply sm_new_wf.
  - apply sm_new_cap.
Qed.

Lemma winv_push_all own cur b i n w : winv own cur w -> winv own cur (push_all b i n w).
Proof.
  revert i w; induction n as [|n IH]; intros i w Hw; simpl; auto.
  apply IH. apply winv_enqueue. apply winv_g_push; auto.
Qed.

Lemma fub_from_list_spec own l w :
  winv own None w ->
  let '(f, w') := fub_from_list l w in
  winv (add1 (blk f) own) None w' /\ sm_wf (tasks f) /\ blk f = length (blocks w)
  /\ sm_cap (tasks f) = length l /\ fub_len f = length l.
Proof.
  intros Hw. unfold fub_from_list.
  pose proof (@winv_alloc_block own None (length l) (count_alloc (if Nat.eqb (length l) 0 then 0 else 1) w)) as H.
  destruct (alloc_block (length l) (count_alloc (if Nat.eqb (length l) 0 then 0 else 1) w)) as [b w'] eqn:Ha.
  simpl in H. destruct H as [H1 H2]; [apply winv_count_alloc; auto | intros; discriminate |].
  subst b. simpl. splits; auto.
  - apply winv_push_all; auto.
  - apply sm_from_list_wf.
  - unfold sm_cap, sm_from_list; simpl. apply map_length.
Qed.

Lemma fub_try_push_spec own cur f c w :
  winv own cur w -> fub_ok own f ->
  match fub_try_push f c w with
  | (PushOk f', w') => winv own cur w' /\ fub_ok own f' /\ blk f' = blk f
                       /\ sm_cap (tasks f') = sm_cap (tasks f)
                       /\ fub_len f' = S (fub_len f) /\ fub_len f < fub_cap f
  | (PushFull, w') => w' = w /\ fub_len f = fub_cap f
  | (PushStuck, _) => False
  end.
Proof.
  intros Hw [Hwf Hown]. unfold fub_try_push.
  pose proof (sm_insert_spec c Hwf) as H.
  destruct (sm_insert (tasks f) c) as [key m| |] eqn:Hi; auto.
  destruct H as (H1 & H2 & H3 & H4 & H5 & H6 & H7).
  splits; simpl; auto; try fok.
  - apply winv_enqueue. apply winv_g_push; auto.
  - eapply sm_insert_cap; eauto.
Qed.

Lemma winv_drop_children own cur b m w : winv own cur w -> winv own cur (drop_children b m w).
Proof.
  unfold drop_children. generalize (sm_children m). intros l. revert w.
  induction l as [|p l IH]; simpl; intros w Hw; auto.
  apply IH. apply winv_emit; auto.
Qed.

Lemma winv_fub_drop own cur f w :
  winv (add1 (blk f) own) cur w -> winv own cur (fub_drop f w).
Proof.
  intros Hw. unfold fub_drop. apply winv_dec_strong. apply winv_drop_children; auto.
Qed.
