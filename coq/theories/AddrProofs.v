(** * AddrProofs: pinned children never move (C08)

    The address of a child in the model is (waker block of its group, slot index) — the
    [Box]ed slot array of a group never moves, so this pair determines the memory address.
    Every operation keeps every child it does not remove at its address: polls update slots
    in place, a push fills a vacant slot, the unbounded collections add / discard / rotate
    whole groups (the handles in the Vec move, the slot arrays do not), re-basing rewrites the
    position index in place. *)
From FB Require Import Base Syntax World SlotMap Fub Unbounded Ordered Tactics SlotMapProofs JoinProofs.
Set Implicit Arguments.

(** every child found in [m'] sits in the same slot of [m] *)
Definition sub_ids (m m' : slotmap) : Prop :=
  forall j id, option_map cid (sm_get m' j) = Some id -> option_map cid (sm_get m j) = Some id.

Lemma sub_ids_refl m : sub_ids m m. Proof. intros j id H; auto. Qed.
Lemma sub_ids_trans a b c : sub_ids a b -> sub_ids b c -> sub_ids a c.
Proof. intros H1 H2 j id H. auto. Qed.
Lemma same_sub m m' : same_ids m m' -> sub_ids m m'.
Proof. intros [_ H] j id Hj. rewrite <- H. auto. Qed.

Lemma sub_ids_remove m i : sub_ids m (sm_remove m i).
Proof.
  intros j id H. rewrite sm_get_remove in H. destruct (Nat.eqb i j); [discriminate|auto].
Qed.

(** a push: the children already held keep their slots; the new one takes a vacant slot *)
Lemma fub_try_push_addr f c w f' w' :
  fub_try_push f c w = (PushOk f', w') ->
  blk f' = blk f
  /\ (forall j c0, sm_get (tasks f) j = Some c0 -> sm_get (tasks f') j = Some c0)
  /\ (forall j id, option_map cid (sm_get (tasks f') j) = Some id ->
        option_map cid (sm_get (tasks f) j) = Some id \/ (id = cid c /\ sm_get (tasks f) j = None)).
Proof.
  unfold fub_try_push. destruct (sm_insert (tasks f) c) as [key m| |] eqn:Hi; try discriminate.
  intros E; inversion E; subst; clear E. simpl. splits; auto.
  - intros j c0 Hj. rewrite (@sm_get_insert (tasks f) c key m j Hi).
    destruct (Nat.eqb_spec key j) as [<-|]; auto.
    unfold sm_insert in Hi. unfold sm_get in Hj.
    destruct (nth_error (slots (tasks f)) (free_head (tasks f))) as [[?|?]|] eqn:Hn; try discriminate.
    inversion Hi; subst. rewrite Hn in Hj. discriminate.
  - intros j id Hj. rewrite (@sm_get_insert (tasks f) c key m j Hi) in Hj.
    destruct (Nat.eqb_spec key j) as [<-|]; auto. simpl in Hj. inversion Hj; subst. right. split; auto.
    unfold sm_insert in Hi. unfold sm_get.
    destruct (nth_error (slots (tasks f)) (free_head (tasks f))) as [[?|?]|] eqn:Hn; try discriminate.
    inversion Hi; subst. rewrite Hn. reflexivity.
Qed.

Lemma drain_blk k n f t w : blk (fst (fst (drain k n f t w))) = blk f.
Proof.
  revert f w. induction n as [|n IH]; intros f w; cbn [drain]; auto.
  destruct (pop (blk f) w) as [pr w1]. destruct pr as [| |i]; auto.
  destruct (sm_get (tasks f) i) as [c|]; [|apply IH].
  destruct (poll_child k c (blk f) i w1) as [[c' r] w2]. destruct (is_ready r); auto.
  rewrite IH. reflexivity.
Qed.

Section WithParams.
Variable P : params.

Lemma fub_poll_next_addr k f t w :
  let '(f', sp, _) := fub_poll_next P k f t w in blk f' = blk f /\ sub_ids (tasks f) (tasks f').
Proof.
  unfold fub_poll_next. pose proof (poll_inner_ids P k f t w) as H.
  assert (Hb : blk (fst (fst (poll_inner P k f t w))) = blk f).
  { unfold poll_inner, poll_inner_no_remove. destruct (Nat.eqb (fub_len f) 0); auto.
    pose proof (drain_blk k (pB P) f t (register (blk f) t w)) as FubBlk.
    destruct (drain k (pB P) f t (register (blk f) t w)) as [[f1 pr] w1]. simpl in FubBlk.
    destruct pr; simpl; auto. unfold fub_remove. destruct (sm_get (tasks f1) i); simpl; auto. }
  destruct (poll_inner P k f t w) as [[f1 pr] w1]. simpl in Hb.
  destruct pr as [| |i c r]; split; auto; try (apply same_sub; assumption).
  destruct H as (c0 & H1 & H2 & H3 & H4 & H5). intros j id Hj.
  destruct (Nat.eq_dec j i) as [->|Hne]; [rewrite H3 in Hj; discriminate|]. rewrite <- H5; auto.
Qed.

Lemma mb_poll_loop_addr n f t w :
  let '(f', sp, _) := mb_poll_loop P n f t w in blk f' = blk f /\ sub_ids (tasks f) (tasks f').
Proof.
  revert f w. induction n as [|n IH]; intros f w; cbn [mb_poll_loop].
  - split; auto. apply sub_ids_refl.
  - unfold poll_inner_no_remove. destruct (Nat.eqb (fub_len f) 0); [split; auto; apply sub_ids_refl|].
    pose proof (drain_ids KSrc (pB P) f t (register (blk f) t w)) as H.
    pose proof (drain_blk KSrc (pB P) f t (register (blk f) t w)) as Hb.
    destruct (drain KSrc (pB P) f t (register (blk f) t w)) as [[f1 pr] w1]. simpl in Hb. destruct H as [H1 H2].
    destruct pr as [| |i c r]; try (split; auto; apply same_sub; assumption).
    assert (Hgo : let '(f0, w0) := fub_remove f1 i w1 in
                  let '(f', sp, _) := mb_poll_loop P n f0 t w0 in blk f' = blk f /\ sub_ids (tasks f) (tasks f')).
    { unfold fub_remove. rewrite H2.
      specialize (IH {| tasks := sm_remove (tasks f1) i; blk := blk f1 |} (emit (ECDrop (cid c) (Some (blk f1, i))) w1)).
      destruct (mb_poll_loop P n {| tasks := sm_remove (tasks f1) i; blk := blk f1 |} t (emit (ECDrop (cid c) (Some (blk f1, i))) w1)) as [[f' sp] w'].
      destruct IH as [I1 I2]. simpl in *. split; [congruence|].
      eapply sub_ids_trans; [apply same_sub; eauto|]. eapply sub_ids_trans; [apply sub_ids_remove|]. exact I2. }
    destruct r; try (destruct (fub_remove f1 i w1) as [f0 w0]; exact Hgo).
    split; auto. apply same_sub; auto.
Qed.

Lemma poll_group_addr mrg g t w :
  let '(g', sp, _) := poll_group P mrg g t w in blk g' = blk g /\ sub_ids (tasks g) (tasks g').
Proof. unfold poll_group. destruct mrg; [apply mb_poll_loop_addr | apply fub_poll_next_addr]. Qed.

(** the address of a child in an unbounded collection *)
Definition at_addr (gs : list fub) (b i : nat) (id : N) : Prop :=
  exists g, In g gs /\ blk g = b /\ option_map cid (sm_get (tasks g) i) = Some id.

Lemma at_addr_incl gs gs' b i id : incl gs' gs -> at_addr gs' b i id -> at_addr gs b i id.
Proof. intros Hi (g & Hg & H1 & H2). exists g. auto. Qed.

Lemma in_upd_cases {A} (l : list A) i x y : In y (upd l i x) -> y = x \/ In y l.
Proof. revert i. induction l as [|a l IH]; intros [|i] H; simpl in *; auto; destruct H; auto. apply IH in H. tauto. Qed.

(** the round-robin loop: whatever groups it removes, rotates or keeps, every child still held
    afterwards is at the address it had before *)
Theorem fu_loop_addr mrg n u t w b i id :
  let '(u', sp, _) := fu_loop P mrg n u t w in
  at_addr (groups u') b i id -> at_addr (groups u) b i id.
Proof.
  revert u w. induction n as [|n IH]; intros u w; cbn [fu_loop].
  - destruct (if mrg then _ else _); auto.
  - set (cur := if Nat.leb (length (groups u)) (cursor u) then 0 else cursor u).
    destruct (nth_error (groups u) cur) as [g|] eqn:Hg; auto.
    pose proof (poll_group_addr mrg g t w) as Hp.
    destruct (poll_group P mrg g t w) as [[g' sp] w1]. destruct Hp as [Hb Hs].
    assert (Hing : In g (groups u)) by (eapply nth_error_In; eauto).
    (* a child of the polled group, or of an untouched group *)
    assert (Hstep : forall gs', (forall y, In y gs' -> y = g' \/ In y (groups u)) ->
                    at_addr gs' b i id -> at_addr (groups u) b i id).
    { intros gs' Hin (y & Hy & H1 & H2). destruct (Hin y Hy) as [->|Hy'].
      - exists g. split; [auto|]. split; [congruence|]. apply Hs. exact H2.
      - exists y. auto. }
    destruct sp.
    + specialize (IH (set_groups u (upd (groups u) cur g') (S cur)) w1).
      destruct (fu_loop P mrg n (set_groups u (upd (groups u) cur g') (S cur)) t w1) as [[u' sp'] w'].
      intros H. apply IH in H. simpl in H. eapply Hstep; [|exact H]. intros y Hy. apply in_upd_cases in Hy. exact Hy.
    + destruct (remove_nth (groups u) cur) eqn:Hr.
      * simpl. intros H. eapply Hstep; [|exact H]. intros y [<-|[]]; auto.
      * rewrite <- Hr.
        destruct (Nat.eqb cur (length (remove_nth (groups u) cur))).
        -- specialize (IH (set_groups u (remove_nth (groups u) cur ++ [g']) 0) w1).
           destruct (fu_loop P mrg n (set_groups u (remove_nth (groups u) cur ++ [g']) 0) t w1) as [[u' sp'] w'].
           intros H. apply IH in H. simpl in H. eapply Hstep; [|exact H].
           intros y Hy. apply in_app_or in Hy. destruct Hy as [Hy|[<-|[]]]; auto. right. eapply remove_nth_In; eauto.
        -- specialize (IH (set_groups u (remove_nth (groups u) cur) cur) (fub_drop g' w1)).
           destruct (fu_loop P mrg n (set_groups u (remove_nth (groups u) cur) cur) t (fub_drop g' w1)) as [[u' sp'] w'].
           intros H. apply IH in H. simpl in H. eapply Hstep; [|exact H].
           intros y Hy. right. eapply remove_nth_In; eauto.
    + simpl. intros H. eapply Hstep; [|exact H]. intros y Hy. apply in_upd_cases in Hy. exact Hy.
Qed.

(** a push (possibly creating groups): every child already held keeps its address; the only
    new one is the pushed child *)
Theorem fu_push_addr mrg u c w b i id :
  let '(u', _) := fu_push P mrg u c w in
  at_addr (groups u') b i id -> at_addr (groups u) b i id \/ id = cid c.
Proof.
  unfold fu_push. cbn [groups rem cursor gcap].
  set (u0 := {| groups := groups u; rem := if mrg then rem u else S (rem u); cursor := cursor u; gcap := gcap u |}).
  assert (H1 : let '(u1, w1) := match groups u with
                                | [] => let '(g, w0) := fub_new (pMinCap P) w in push_group u0 g w0
                                | _ :: _ => (u0, w) end in
               forall y, In y (groups u1) -> In y (groups u) \/ (forall j, sm_get (tasks y) j = None)).
  { destruct (groups u) eqn:Hg; [|simpl; auto].
    unfold fub_new. destruct (alloc_block _ _) as [b0 w0]. unfold push_group. destruct (vec_grow _ _). simpl.
    intros y [<-|[]]. right. intros j. simpl. apply sm_new_get. }
  destruct (match groups u with [] => _ | _ :: _ => _ end) as [u1 w1].
  assert (Hbase : forall gs', (forall y, In y gs' -> In y (groups u1) \/
                                (exists g0, (In g0 (groups u1) \/ forall j, sm_get (tasks g0) j = None) /\ blk y = blk g0 /\
                                   forall j id0, option_map cid (sm_get (tasks y) j) = Some id0 ->
                                       option_map cid (sm_get (tasks g0) j) = Some id0 \/ id0 = cid c)) ->
                  at_addr gs' b i id -> at_addr (groups u) b i id \/ id = cid c).
  { intros gs' Hin (y & Hy & Hb & Hid). destruct (Hin y Hy) as [Hy1|(g0 & Hg0 & Hbl & Hsub)].
    - destruct (H1 y Hy1) as [Hy2|Hemp]; [left; exists y; auto|]. rewrite Hemp in Hid. discriminate.
    - destruct (Hsub _ _ Hid) as [Hold| ->]; auto.
      destruct Hg0 as [Hg0|Hemp]; [|rewrite Hemp in Hold; discriminate].
      destruct (H1 g0 Hg0) as [Hg1|Hemp]; [|rewrite Hemp in Hold; discriminate].
      left. exists g0. splits; auto. congruence. }
  destruct (last_opt (groups u1)) as [lastg|] eqn:Hl.
  2:{ intros H. eapply Hbase; [|exact H]. auto. }
  assert (Hlin : In lastg (groups u1)) by (rewrite last_opt_nth in Hl; eapply nth_error_In; eauto).
  destruct (fub_try_push lastg c w1) as [[g'| |] w2] eqn:Hp.
  - destruct (fub_try_push_addr _ _ _ Hp) as (A1 & A2 & A3). simpl.
    intros H. eapply Hbase; [|exact H]. intros y Hy. apply in_upd_cases in Hy. destruct Hy as [ ->|Hy]; auto.
    right. exists lastg. splits; auto. intros j id0 Hj. destruct (A3 _ _ Hj) as [|[ -> _]]; auto.
  - unfold fub_new. destruct (alloc_block _ _) as [b0 w3].
    set (gnew := {| tasks := sm_new (fub_cap lastg * pGrowth P); blk := b0 |}).
    destruct (fub_try_push gnew c w3) as [[g'| |] w4] eqn:Hp2.
    + destruct (fub_try_push_addr _ _ _ Hp2) as (A1 & A2 & A3).
      unfold push_group. destruct (vec_grow _ _). simpl.
      intros H. eapply Hbase; [|exact H]. intros y Hy. apply in_app_or in Hy. destruct Hy as [Hy|[<-|[]]]; auto.
      right. exists gnew. splits; auto.
      * right. intros j. simpl. apply sm_new_get.
      * intros j id0 Hj. destruct (A3 _ _ Hj) as [|[ -> _]]; auto.
    + simpl. intros H. eapply Hbase; [|exact H]. auto.
    + simpl. intros H. eapply Hbase; [|exact H]. auto.
  - simpl. intros H. eapply Hbase; [|exact H]. auto.
Qed.

(** re-basing an ordered queue rewrites position indices in place *)
Theorem rebase_addr m j : option_map cid (sm_get (sm_map_children (flip_child P) m) j) = option_map cid (sm_get m j).
Proof. rewrite sm_get_map_children. destruct (sm_get m j); reflexivity. Qed.

End WithParams.
