(** * UpstreamLedger: the buffered adapters and for_each_concurrent consume their upstream
    strictly sequentially (C10, whole histories)

    [up_step]: one poll of the scripted upstream as a pure function (state -> state * answer);
    [up_run u n]: the answers of [n] successive polls.  Every function of the model except
    [up_poll] logs no upstream poll ([usuf]); [up_poll] logs exactly the answer of [up_step] and
    moves the state as [up_step] does.  Hence over any history of an adapter the upstream-poll
    events, in chronological order, are [up_run u0 (their number)]: every step of the upstream is
    polled once, in order, none skipped or repeated — and (with the fusedness theorem) never
    after the end. *)
From FB Require Import Base Syntax World SlotMap Fub Unbounded Ordered Adapters Step Tactics SlotMapProofs WorldProofs FubProofs
  UnboundedProofs OrderedProofs AdaptersProofs StepProofs Reach.

Definition upp_ev (e : event) : list upans := match e with EUpPoll a => [a] | _ => [] end.
(** the upstream polls of a piece of log (the log is newest first) *)
Definition upp (l : list event) : list upans := flat_map upp_ev l.
Lemma upp_app a b : upp (a ++ b) = upp a ++ upp b. Proof. apply flat_map_app. Qed.

Definition usuf (w w' : world) : Prop := exists l, log w' = l ++ log w /\ upp l = [].

Lemma usuf_refl w : usuf w w. Proof. exists []. auto. Qed.
Lemma usuf_trans w1 w2 w3 : usuf w1 w2 -> usuf w2 w3 -> usuf w1 w3.
Proof.
  intros (l1 & H1 & A1) (l2 & H2 & A2). exists (l2 ++ l1). rewrite H2, H1, app_assoc, upp_app, A1, A2. auto.
Qed.
Lemma usuf_same w w' : log w' = log w -> usuf w w'. Proof. intros H. exists []. auto. Qed.
Definition uq_ev (e : event) : bool := match e with EUpPoll _ => false | _ => true end.
Lemma usuf_emit e w : uq_ev e = true -> usuf w (emit e w).
Proof. intros H. exists [e]. split; [reflexivity|]. destruct e; simpl in *; auto; discriminate. Qed.

Ltac us := repeat first [apply usuf_refl | (apply usuf_emit; reflexivity) | (apply usuf_same; reflexivity)
                        | (eapply usuf_trans; [|apply usuf_emit; reflexivity]) ].

Lemma usuf_notify b w : usuf w (notify b w).
Proof.
  unfold notify. destruct (get_blk w b); [|us]. destruct (breg b0); [|us].
  eapply usuf_trans; [|apply usuf_emit; reflexivity]. us.
Qed.

Lemma usuf_enqueue b s w : usuf w (snd (enqueue_slot b s w)).
Proof. unfold enqueue_slot. destruct (get_blk w b); [|us]. destruct (nth_error (bflags b0) s) as [[|]|]; us. Qed.

Lemma usuf_wake_slot b s w : usuf w (wake_slot b s w).
Proof.
  unfold wake_slot. change (get_blk (g_wake w) b) with (get_blk w b).
  assert (H0 : usuf w (g_wake w)) by us.
  destruct (get_blk w b) as [k|]; [|eapply usuf_trans; [exact H0|us]].
  destruct (bfreed k); [eapply usuf_trans; [exact H0|us]|].
  pose proof (usuf_enqueue b s (g_wake w)) as He.
  destruct (enqueue_slot b s (g_wake w)) as [q w1]. cbn [snd] in He.
  destruct q; [|eapply usuf_trans; [exact H0|exact He]].
  eapply usuf_trans; [exact H0|]. eapply usuf_trans; [exact He|]. apply usuf_notify.
Qed.

Lemma usuf_dec_strong b w : usuf w (dec_strong b w).
Proof.
  unfold dec_strong. destruct (get_blk w b) as [k|]; [|us]. destruct (bfreed k); [us|].
  destruct (bstrong k) as [|[|n]]; us.
Qed.

Lemma usuf_inc_strong b w : usuf w (inc_strong b w).
Proof. unfold inc_strong. destruct (get_blk w b) as [k|]; [|us]. destruct (bfreed k); us. Qed.

Lemma usuf_wake_ref x w : usuf w (wake_ref_handle x w).
Proof. destruct x; simpl; [us|apply usuf_wake_slot]. Qed.
Lemma usuf_drop_val x w : usuf w (drop_handle_val x w).
Proof. destruct x; simpl; [us|apply usuf_dec_strong]. Qed.
Lemma usuf_clone_val x w : usuf w (clone_handle_val x w).
Proof.
  destruct x; simpl; [us|]. eapply usuf_trans; [apply usuf_inc_strong|]. us.
Qed.

Lemma usuf_do_act cw a w : usuf w (do_act cw a w).
Proof.
  destruct a; cbn [do_act].
  - destruct cw; [apply usuf_wake_ref|us].
  - destruct cw; [apply usuf_clone_val|us].
  - destruct (get_handle w h); [apply usuf_wake_ref|us].
  - destruct (get_handle w h); [|us].
    eapply usuf_trans; [|apply usuf_drop_val]. eapply usuf_trans; [|apply usuf_wake_ref]. us.
  - destruct (get_handle w h); [|us]. eapply usuf_trans; [|apply usuf_drop_val]. us.
  - destruct (get_handle w h); [apply usuf_clone_val|us].
Qed.

Lemma usuf_do_acts cw l w : usuf w (do_acts cw l w).
Proof.
  unfold do_acts. revert w; induction l as [|a l IH]; simpl; intros w; [us|].
  eapply usuf_trans; [apply usuf_do_act|apply IH].
Qed.

Lemma usuf_run_inj p k sl w : usuf w (run_inj p k sl w).
Proof.
  unfold run_inj. destruct (find_inj p k (inj_pts (winj w))); [us|].
  eapply usuf_trans; [apply (usuf_emit (EInj p k sl)); reflexivity|apply usuf_do_acts].
Qed.

Lemma usuf_clear_flag b i w : usuf w (clear_flag b i w).
Proof. unfold clear_flag. destruct (get_blk w b); us. Qed.

Lemma usuf_pop b w : usuf w (snd (pop b w)).
Proof.
  unfold pop. assert (H0 : usuf w (set_popk (S (popk w)) w)) by us.
  destruct (forced_inc (S (popk w)) (set_popk (S (popk w)) w)); cbn [snd].
  - eapply usuf_trans; [exact H0|apply usuf_run_inj].
  - change (get_blk (set_popk (S (popk w)) w) b) with (get_blk w b).
    destruct (get_blk w b) as [kb|]; cbn [snd]; [|us].
    destruct (bqueue kb) as [|i q]; cbn [snd].
    + eapply usuf_trans; [exact H0|apply usuf_run_inj].
    + eapply usuf_trans; [|apply usuf_run_inj]. eapply usuf_trans; [|apply usuf_clear_flag].
      eapply usuf_trans; [|apply usuf_run_inj]. us.
Qed.

Lemma usuf_self_wake b t w : usuf w (self_wake b t w).
Proof. unfold self_wake. eapply usuf_trans; [|apply usuf_emit; reflexivity]. destruct (get_blk w b); us. Qed.

Lemma usuf_register b t w : usuf w (register b t w).
Proof.
  unfold register. eapply usuf_trans; [|apply usuf_run_inj]. destruct (get_blk w b); us.
Qed.




Lemma usuf_fub_remove f i w : usuf w (snd (fub_remove f i w)).
Proof. unfold fub_remove. destruct (sm_get (tasks f) i); cbn [snd]; us. Qed.

Lemma usuf_fub_drop f w : usuf w (fub_drop f w).
Proof.
  unfold fub_drop. eapply usuf_trans; [|apply usuf_dec_strong].
  unfold drop_children. generalize (sm_children (tasks f)). intros l. revert w.
  induction l as [|p l IH]; intros w; simpl; [us|]. eapply usuf_trans; [|apply IH]. us.
Qed.

Lemma usuf_count_alloc n w : usuf w (count_alloc n w). Proof. us. Qed.
Lemma usuf_alloc_block cap w : usuf w (snd (alloc_block cap w)).
Proof. unfold alloc_block. cbn [snd]. eapply usuf_trans; [|apply (usuf_emit (EBlkAlloc _ _)); reflexivity]. us. Qed.
Lemma usuf_fub_new cap w : usuf w (snd (fub_new cap w)).
Proof.
  unfold fub_new. pose proof (usuf_alloc_block cap (count_alloc (if Nat.eqb cap 0 then 0 else 1) w)) as H.
  destruct (alloc_block cap (count_alloc (if Nat.eqb cap 0 then 0 else 1) w)) as [b w1]. cbn [snd] in *.
  eapply usuf_trans; [apply usuf_count_alloc|exact H].
Qed.
Lemma usuf_push_all b i n w : usuf w (push_all b i n w).
Proof.
  revert i w. induction n as [|n IH]; intros i w; cbn [push_all]; [us|].
  eapply usuf_trans; [|apply IH]. eapply usuf_trans; [|apply usuf_enqueue]. us.
Qed.
Lemma usuf_fub_from_list l w : usuf w (snd (fub_from_list l w)).
Proof.
  unfold fub_from_list.
  pose proof (usuf_alloc_block (length l) (count_alloc (if Nat.eqb (length l) 0 then 0 else 1) w)) as H.
  destruct (alloc_block (length l) (count_alloc (if Nat.eqb (length l) 0 then 0 else 1) w)) as [b w1]. cbn [snd] in *.
  eapply usuf_trans; [apply usuf_count_alloc|]. eapply usuf_trans; [exact H|apply usuf_push_all].
Qed.
Lemma usuf_fub_try_push f c w : usuf w (snd (fub_try_push f c w)).
Proof.
  unfold fub_try_push. destruct (sm_insert (tasks f) c); cbn [snd]; [|us|us].
  eapply usuf_trans; [|apply usuf_enqueue]. us.
Qed.

Lemma usuf_poll_child k c b s w : usuf w (snd (poll_child k c b s w)).
Proof.
  unfold poll_child. destruct (cdone c); cbn [snd]; [us|].
  destruct (cscript c) as [|[acts r0] rest]; cbn [snd]; [us|].
  eapply usuf_trans; [|apply usuf_emit; reflexivity]. eapply usuf_trans; [|apply usuf_do_acts]. us.
Qed.

Lemma usuf_drain k n f t w : usuf w (snd (drain k n f t w)).
Proof.
  revert f w. induction n as [|n IH]; intros f w; cbn [drain]; cbn [snd]; [apply usuf_self_wake|].
  pose proof (usuf_pop (blk f) w) as Hp. destruct (pop (blk f) w) as [pr w1]. cbn [snd] in Hp.
  destruct pr as [| |i]; cbn [snd]; auto.
  - eapply usuf_trans; [exact Hp|apply usuf_self_wake].
  - destruct (sm_get (tasks f) i) as [c|].
    + pose proof (usuf_poll_child k c (blk f) i w1) as Hc.
      destruct (poll_child k c (blk f) i w1) as [[c' r] w2]. cbn [snd] in Hc.
      destruct (is_ready r); cbn [snd]; [eapply usuf_trans; eauto|].
      eapply usuf_trans; [exact Hp|]. eapply usuf_trans; [exact Hc|apply IH].
    + eapply usuf_trans; [exact Hp|apply IH].
Qed.

Lemma usuf_drop_heap h w : usuf w (drop_heap h w).
Proof.
  unfold drop_heap. revert w. induction h as [|e h IH]; intros w; simpl; [us|].
  eapply usuf_trans; [|apply IH]. us.
Qed.

Lemma usuf_fob_drop q w : usuf w (fob_drop q w).
Proof. unfold fob_drop. eapply usuf_trans; [apply usuf_fub_drop|apply usuf_drop_heap]. Qed.

Section WithParams.
Variable P : params.

Lemma usuf_poll_inner_no_remove k f t w : usuf w (snd (poll_inner_no_remove P k f t w)).
Proof.
  unfold poll_inner_no_remove. destruct (Nat.eqb (fub_len f) 0); cbn [snd]; [us|].
  eapply usuf_trans; [apply usuf_register|apply usuf_drain].
Qed.

Lemma usuf_poll_inner k f t w : usuf w (snd (poll_inner P k f t w)).
Proof.
  unfold poll_inner. pose proof (usuf_poll_inner_no_remove k f t w) as H.
  destruct (poll_inner_no_remove P k f t w) as [[f1 pr] w1]. cbn [snd] in H.
  destruct pr as [| |i c r]; cbn [snd]; auto.
  pose proof (usuf_fub_remove f1 i w1) as Hr. destruct (fub_remove f1 i w1) as [f2 w2]. cbn [snd] in *.
  eapply usuf_trans; eauto.
Qed.

Lemma usuf_fub_poll_next k f t w : usuf w (snd (fub_poll_next P k f t w)).
Proof.
  unfold fub_poll_next. pose proof (usuf_poll_inner k f t w) as H.
  destruct (poll_inner P k f t w) as [[f1 pr] w1]. cbn [snd] in H. destruct pr; cbn [snd]; auto.
Qed.

Lemma usuf_ord_park o i tk w : usuf w (snd (ord_park o i tk w)).
Proof. unfold ord_park. destruct (vec_grow _ _). cbn [snd]. us. Qed.

Lemma usuf_fob_loop k n q t w : usuf w (snd (fob_loop P k n q t w)).
Proof.
  revert q w. induction n as [|n IH]; intros q w; cbn [fob_loop]; [cbn [snd]; us|].
  pose proof (usuf_fub_poll_next k (fo_inner q) t w) as H.
  destruct (fub_poll_next P k (fo_inner q) t w) as [[f sp] w1]. cbn [snd] in H.
  destruct sp as [| |tk c]; cbn [snd]; auto.
  cbn [fo_ord]. destruct (Z.eqb (cidx c) (nout (fo_ord q))); cbn [snd]; auto.
  pose proof (usuf_ord_park (fo_ord q) (cidx c) tk w1) as Hp.
  destruct (ord_park (fo_ord q) (cidx c) tk w1) as [o w2]. cbn [snd] in Hp.
  eapply usuf_trans; [exact H|]. eapply usuf_trans; [exact Hp|apply IH].
Qed.

Lemma usuf_fob_poll_next k q t w : usuf w (snd (fob_poll_next P k q t w)).
Proof.
  unfold fob_poll_next. destruct (ord_try_release P (fo_ord (fob_rebase P q))) as [[tk o]|]; cbn [snd]; [us|].
  apply usuf_fob_loop.
Qed.

Lemma usuf_fob_try_push front q c w : usuf w (snd (fob_try_push P front q c w)).
Proof.
  unfold fob_try_push. set (ch := child_set_idx c _).
  pose proof (usuf_fub_try_push (fo_inner q) ch w) as H.
  destruct (fub_try_push (fo_inner q) ch w) as [[f| |] w1]; cbn [snd] in *; auto.
Qed.

Lemma usuf_q_push q c w : usuf w (snd (q_push P q c w)).
Proof.
  unfold q_push. destruct q as [f|o].
  - pose proof (usuf_fub_try_push f c w) as H. destruct (fub_try_push f c w) as [[f'| |] w1]; cbn [snd] in *; auto;
      (eapply usuf_trans; [exact H|us]).
  - pose proof (usuf_fob_try_push false o c w) as H. destruct (fob_try_push P false o c w) as [[o'|] w1]; cbn [snd] in *; auto.
    eapply usuf_trans; [exact H|us].
Qed.

Lemma usuf_q_poll k q t w : usuf w (snd (q_poll P k q t w)).
Proof.
  unfold q_poll. destruct q as [f|o].
  - pose proof (usuf_fub_poll_next k f t w) as H. destruct (fub_poll_next P k f t w) as [[f' sp] w1]. exact H.
  - pose proof (usuf_fob_poll_next k o t w) as H. destruct (fob_poll_next P k o t w) as [[o' sp] w1]. exact H.
Qed.

(** ** the upstream as a pure function *)
Definition up_step (try : bool) (u : upstream) : upstream * upans :=
  if us_ended u then (u, UAAfterEnd)
  else
    match us_steps u with
    | [] => (u, UAPend)
    | UItem s :: rest => (us_advance u rest true false, UAItem (us_next u))
    | UPend a :: rest => (us_advance u rest false false, UAPend)
    | UErr :: rest => (us_advance u rest false false, if try then UAErr (TUp (us_idx u)) else UAPend)
    | UEnd :: rest => (us_advance u rest false true, UAEnd)
    end.

Fixpoint up_run (try : bool) (u : upstream) (n : nat) : list upans * upstream :=
  match n with
  | O => ([], u)
  | S n' => let '(u1, a) := up_step try u in let '(l, u2) := up_run try u1 n' in (a :: l, u2)
  end.

Lemma up_run_app try u n m :
  up_run try u (n + m) =
  let '(l1, u1) := up_run try u n in let '(l2, u2) := up_run try u1 m in (l1 ++ l2, u2).
Proof.
  revert u. induction n as [|n IH]; intros u; simpl.
  - destruct (up_run try u m); reflexivity.
  - destruct (up_step try u) as [u1 a]. rewrite IH. destruct (up_run try u1 n) as [l1 u2].
    destruct (up_run try u2 m) as [l2 u3]. reflexivity.
Qed.

(** [up_poll] logs the answer of [up_step] and moves the state as [up_step] does *)
Lemma up_poll_ref try u t w :
  let '(u', r, w') := up_poll try u t w in
  u' = fst (up_step try u)
  /\ exists l, log w' = l ++ log w /\ upp l = [snd (up_step try u)].
Proof.
  unfold up_poll, up_step. destruct (us_ended u).
  - split; auto. exists [EStuck; EUpPoll UAAfterEnd]. split; reflexivity.
  - destruct (us_steps u) as [|[s|a| |] rest]; cbn [fst snd].
    + split; auto. exists [EUpPoll UAPend]. split; reflexivity.
    + split; auto. exists [EUpPoll (UAItem (us_next u))]. split; reflexivity.
    + split; auto. destruct (usuf_do_acts (Some (HTask t)) a (emit (EUpPoll UAPend) w)) as (l & H & A).
      exists (l ++ [EUpPoll UAPend]). split; [rewrite H, <- app_assoc; reflexivity|].
      rewrite upp_app, A. reflexivity.
    + destruct try; (split; auto); eexists [_]; split; reflexivity.
    + split; auto. exists [EUpPoll UAEnd]. split; reflexivity.
Qed.

(** what a call did to the upstream: the polls it logged, oldest first, are a run of the
    upstream it started with; the upstream it ends with is where that run leaves it (or gone) *)
Definition UP (try : bool) (ou : option upstream) (w : world) (ou' : option upstream) (w' : world) : Prop :=
  exists l, log w' = l ++ log w /\
    match ou with
    | None => upp l = [] /\ ou' = None
    | Some u => exists m, rev (upp l) = fst (up_run try u m) /\ (ou' = Some (snd (up_run try u m)) \/ ou' = None)
    end.

Lemma UP_usuf try ou w w' : usuf w w' -> UP try ou w ou w'.
Proof.
  intros (l & H & A). exists l. split; auto. destruct ou as [u|]; [|auto].
  exists 0. rewrite A. simpl. auto.
Qed.

Lemma UP_trans try o1 w1 o2 w2 o3 w3 : UP try o1 w1 o2 w2 -> UP try o2 w2 o3 w3 -> UP try o1 w1 o3 w3.
Proof.
  intros (l1 & H1 & A1) (l2 & H2 & A2). exists (l2 ++ l1). split; [rewrite H2, H1, app_assoc; reflexivity|].
  rewrite upp_app, rev_app_distr.
  destruct o1 as [u|].
  - destruct A1 as (m1 & R1 & [E|E]); subst o2.
    + destruct A2 as (m2 & R2 & E2). exists (m1 + m2). rewrite up_run_app.
      destruct (up_run try u m1) as [la ua]. cbn [fst snd] in *.
      destruct (up_run try ua m2) as [lb ub]. cbn [fst snd] in *. rewrite R1, R2. split; auto.
    + destruct A2 as [U2 E2]. exists m1. rewrite U2. simpl. rewrite app_nil_r. split; auto.
  - destruct A1 as [U1 ->]. destruct A2 as [U2 ->]. rewrite U1, U2. auto.
Qed.

Lemma UP_poll try u t w :
  let '(u', r, w') := up_poll try u t w in UP try (Some u) w (Some u') w'.
Proof.
  pose proof (up_poll_ref try u t w) as H. destruct (up_poll try u t w) as [[u' r] w'].
  destruct H as (-> & l & Hl & A). exists l. split; auto. exists 1. simpl.
  destruct (up_step try u) as [u1 a]. cbn [fst snd] in *. rewrite A. simpl. auto.
Qed.

Lemma UP_end try u w w' : usuf w w' -> UP try (Some u) w None w'.
Proof. intros (l & H & A). exists l. split; auto. exists 0. rewrite A. simpl. auto. Qed.

(** the fill loop of the buffered adapters *)
Lemma fill_up n a t w :
  let '(a', e, w') := fill P n a t w in
  ad_try a' = ad_try a /\ UP (ad_try a) (ad_up a) w (ad_up a') w'.
Proof.
  revert a w. induction n as [|n IH]; intros a w; cbn [fill].
  - split; auto. apply UP_usuf. us.
  - destruct (Nat.ltb (q_len (ad_q a)) (q_cap (ad_q a))); [|split; auto; apply UP_usuf; us].
    destruct (ad_up a) as [u|] eqn:Hu; [|split; auto; rewrite Hu; apply UP_usuf; us].
    pose proof (UP_poll (ad_try a) u t w) as Hp.
    destruct (up_poll (ad_try a) u t w) as [[u1 r] w1].
    destruct r as [c| | |tk]; cbn [ad_try ad_up].
    + pose proof (usuf_q_push (ad_q a) c w1) as Hq. destruct (q_push P (ad_q a) c w1) as [q w2]. cbn [snd] in Hq.
      specialize (IH {| ad_try := ad_try a; ad_up := Some u1; ad_q := q |} w2).
      destruct (fill P n _ t w2) as [[a' e] w']. cbn [ad_try ad_up] in IH. destruct IH as [I1 I2].
      split; auto. eapply UP_trans; [exact Hp|]. eapply UP_trans; [apply UP_usuf; exact Hq|exact I2].
    + split; auto.
    + split; auto. eapply UP_trans; [exact Hp|]. apply UP_end. us.
    + split; auto.
Qed.

Lemma adapter_poll_up a t w :
  let '(a', r, w') := adapter_poll P a t w in
  ad_try a' = ad_try a /\ UP (ad_try a) (ad_up a) w (ad_up a') w'.
Proof.
  unfold adapter_poll. pose proof (fill_up (S (q_cap (ad_q a))) a t w) as H.
  destruct (fill P (S (q_cap (ad_q a))) a t w) as [[a1 e] w1]. destruct H as [H1 H2].
  destruct e as [tk|]; [split; auto|].
  pose proof (usuf_q_poll (ad_kind a1) (ad_q a1) t w1) as Hq.
  destruct (q_poll P (ad_kind a1) (ad_q a1) t w1) as [[q sp] w2]. cbn [snd] in Hq.
  assert (Hgen : UP (ad_try a) (ad_up a) w (ad_up a1) w2).
  { eapply UP_trans; [exact H2|]. rewrite <- H1. apply UP_usuf. exact Hq. }
  destruct sp as [| |tk c]; cbn [ad_up ad_try]; try (split; auto).
  destruct (ad_up a1); cbn [ad_try ad_up]; split; auto.
Qed.

(** for_each_concurrent *)
Lemma fec_loop_up n a t w :
  let '(a', r, w') := fec_loop P n a t w in UP false (fe_up a) w (fe_up a') w'.
Proof.
  revert a w. induction n as [|n IH]; intros a w; cbn [fec_loop]; [apply UP_usuf; us|].
  assert (Hpull : let '(a1, pulled, w1) :=
            if Nat.ltb (fub_len (fe_q a)) (fub_cap (fe_q a)) then
              match fe_up a with
              | Some u =>
                  let '(u, r, w) := up_poll false u t w in
                  match r with
                  | UPItem c =>
                      match fub_try_push (fe_q a) c w with
                      | (PushOk f, w) => ({| fe_up := Some u; fe_q := f |}, true, w)
                      | (_, w) => ({| fe_up := Some u; fe_q := fe_q a |}, true, emit EStuck w)
                      end
                  | UPEnd => ({| fe_up := None; fe_q := fe_q a |}, false, emit EUpDrop w)
                  | _ => ({| fe_up := Some u; fe_q := fe_q a |}, false, w)
                  end
              | None => (a, false, w)
              end
            else (a, false, w) in
          UP false (fe_up a) w (fe_up a1) w1).
  { destruct (Nat.ltb (fub_len (fe_q a)) (fub_cap (fe_q a))); [|apply UP_usuf; us].
    destruct (fe_up a) as [u|] eqn:Hu; [|rewrite Hu; apply UP_usuf; us].
    pose proof (UP_poll false u t w) as Hp. destruct (up_poll false u t w) as [[u1 r] w1].
    destruct r as [c| | |tk]; cbn [fe_up]; auto.
    - pose proof (usuf_fub_try_push (fe_q a) c w1) as Hq.
      destruct (fub_try_push (fe_q a) c w1) as [[f| |] w2]; cbn [snd fe_up] in *;
        (eapply UP_trans; [exact Hp|]; apply UP_usuf; first [exact Hq | (eapply usuf_trans; [exact Hq|us])]).
    - eapply UP_trans; [exact Hp|]. apply UP_end. us. }
  destruct (if Nat.ltb (fub_len (fe_q a)) (fub_cap (fe_q a)) then _ else _) as [[a1 pulled] w1].
  pose proof (usuf_fub_poll_next KFut (fe_q a1) t w1) as Hq.
  destruct (fub_poll_next P KFut (fe_q a1) t w1) as [[f sp] w2]. cbn [snd] in Hq.
  assert (Hgen : UP false (fe_up a) w (fe_up a1) w2) by (eapply UP_trans; [exact Hpull|apply UP_usuf; exact Hq]).
  assert (Hrec : let '(a', r, w') := fec_loop P n {| fe_up := fe_up a1; fe_q := f |} t w2 in UP false (fe_up a) w (fe_up a') w').
  { specialize (IH {| fe_up := fe_up a1; fe_q := f |} w2). destruct (fec_loop P n _ t w2) as [[a' r] w'].
    cbn [fe_up] in IH. eapply UP_trans; eauto. }
  destruct sp as [| |tk c]; cbn [fe_up]; auto.
  - destruct pulled; auto.
  - destruct (fe_up a1); auto. destruct pulled; auto.
Qed.

End WithParams.

(** ** one operation of a history, whole histories *)
From FB Require Import TokenLedger.

Lemma usuf_cleanup_from n h w : usuf w (cleanup_from n h w).
Proof.
  revert h w; induction n as [|n IH]; intros h w; cbn [cleanup_from]; [us|].
  eapply usuf_trans; [apply usuf_do_act|apply IH].
Qed.

Lemma usuf_emit_ret r w : usuf w (emit_ret r w).
Proof.
  unfold emit_ret. generalize (ret_toks r). intros toks.
  assert (H : usuf w (emit (ERet r) w)) by us. revert H. generalize (emit (ERet r) w). intros w0 H.
  revert w0 H. induction toks as [|tk toks IH]; intros w0 H; simpl; auto.
  apply IH. eapply usuf_trans; [exact H|us].
Qed.

Section Steps.
Variable P : params.

Definition up_of (k : coll) : option (bool * option upstream) :=
  match k with CAd a => Some (ad_try a, ad_up a) | CFec a => Some (false, fe_up a) | _ => None end.
Definition uty (k : coll) : Prop :=
  match k with CAd _ | CFec _ | CDead | CDropped => True | _ => False end.

(** the invariant of a history: [U] = the upstream polls so far, oldest first *)
Definition UINV (try : bool) (u0 : upstream) (k : coll) (U : list upans) : Prop :=
  exists n, fst (up_run try u0 n) = U /\
    match up_of k with
    | Some (tr, ou) => tr = try /\ (ou = Some (snd (up_run try u0 n)) \/ ou = None)
    | None => True
    end.

(** one operation: the polls it logs continue the run *)
Definition USTEP (k : coll) (w : world) (k' : coll) (w' : world) : Prop :=
  match up_of k with
  | Some (tr, ou) =>
      match up_of k' with
      | Some (tr', ou') => tr' = tr /\ UP tr ou w ou' w'
      | None => usuf w w'
      end
  | None => usuf w w' /\ up_of k' = None
  end.

Lemma USTEP_same k w w' : usuf w w' -> USTEP k w k w'.
Proof.
  intros H. unfold USTEP. destruct (up_of k) as [[tr ou]|]; [split; auto; apply UP_usuf; auto|auto].
Qed.

Lemma step_core_ustep k o w :
  uty k -> USTEP k w (fst (step_core P k o w)) (snd (step_core P k o w)) /\ uty (fst (step_core P k o w)).
Proof.
  intros Hk. unfold step_core.
  destruct o as [ty p inits ups|c sc|c sc|c sc|c sc|t i|a| | | | ].
  - destruct k; try contradiction; cbn [fst snd]; (split; [apply USTEP_same; us|exact Hk]).
  - destruct k; try contradiction; cbn [fst snd do_push]; (split; [apply USTEP_same; us|exact Hk]).
  - destruct k; try contradiction; cbn [fst snd do_push]; (split; [apply USTEP_same; us|exact Hk]).
  - destruct k; try contradiction; cbn [fst snd do_push]; (split; [apply USTEP_same; us|exact Hk]).
  - destruct k; try contradiction; cbn [fst snd do_push]; (split; [apply USTEP_same; us|exact Hk]).
  - unfold do_poll. destruct k; try contradiction; cbn [fst snd]; try (split; [apply USTEP_same; us|exact Hk]).
    + pose proof (adapter_poll_up P a t w) as H. destruct (adapter_poll P a t w) as [[a' r] w1]. destruct H as [H1 H2].
      cbn [fst snd]. split; [|exact I]. unfold USTEP. cbn [up_of]. split; auto.
      eapply UP_trans; [exact H2|]. apply UP_usuf. apply usuf_emit_ret.
    + unfold fec_poll. pose proof (fec_loop_up P (fec_fuel a) a t w) as H.
      destruct (fec_loop P (fec_fuel a) a t w) as [[a' r] w1]. cbn [fst snd]. split; [|exact I].
      unfold USTEP. cbn [up_of]. split; auto. eapply UP_trans; [exact H|]. apply UP_usuf. apply usuf_emit_ret.
  - cbn [fst snd]. split; auto. apply USTEP_same. apply usuf_do_act.
  - cbn [fst snd]. split; auto. apply USTEP_same. destruct (observe P k); us.
  - cbn [fst snd]. split; auto. apply USTEP_same. us.
  - unfold do_drop. destruct k; try contradiction; cbn [fst snd]; try (split; [apply USTEP_same; us|exact Hk]).
    + split; [|exact I]. unfold USTEP. cbn [up_of]. unfold adapter_drop, queue_drop.
      assert (H0 : usuf w (match ad_up a with Some _ => emit EUpDrop w | None => w end)) by (destruct (ad_up a); us).
      destruct (ad_q a); (eapply usuf_trans; [exact H0|]); [apply usuf_fub_drop|apply usuf_fob_drop].
    + split; [|exact I]. unfold USTEP. cbn [up_of]. unfold fec_drop.
      assert (H0 : usuf w (match fe_up a with Some _ => emit EUpDrop w | None => w end)) by (destruct (fe_up a); us).
      eapply usuf_trans; [exact H0|apply usuf_fub_drop].
  - cbn [fst snd]. split; auto. apply USTEP_same. unfold cleanup. apply usuf_cleanup_from.
Qed.

Definition uppolls_in (s : state) (ops : list op) : list upans :=
  flat_map (fun l => rev (upp l)) (run_logs P s ops).

Theorem upstream_ledger_from s ops try u0 U :
  uty (st_coll s) -> UINV try u0 (st_coll s) U ->
  UINV try u0 (st_coll (run_state P s ops)) (U ++ uppolls_in s ops).
Proof.
  revert s U. induction ops as [|o ops IH]; intros s U Hk Hinv.
  - unfold uppolls_in. simpl. rewrite app_nil_r. exact Hinv.
  - unfold uppolls_in in *. simpl. rewrite flat_map_app.
    destruct (is_dead (st_coll s)) eqn:Hd.
    + assert (Hfix : fst (step_op P s o) = s) by (unfold step_op; rewrite Hd; reflexivity).
      rewrite Hfix in *. simpl. apply IH; auto.
    + simpl. rewrite app_nil_r.
      set (s' := fst (step_op P s o)) in *.
      assert (Hstep : UINV try u0 (st_coll s') (U ++ rev (upp (log (st_world s')))) /\ uty (st_coll s')).
      { unfold s', step_op. rewrite Hd.
        destruct (@step_core_ustep (st_coll s) o (begin_op (op_inj o) (st_world s)) Hk) as [Hu Ht].
        destruct (step_core P (st_coll s) o (begin_op (op_inj o) (st_world s))) as [k' w']. cbn [fst snd st_coll st_world] in *.
        split; auto. destruct Hinv as (n & HU & Hm). unfold USTEP in Hu.
        destruct (up_of (st_coll s)) as [[tr ou]|] eqn:Hup.
        - destruct Hm as [-> Hou].
          destruct (up_of k') as [[tr' ou']|] eqn:Hup'.
          + destruct Hu as [-> (l & Hl & Hm')]. simpl in Hl. rewrite app_nil_r in Hl. subst l.
            destruct ou as [u|].
            * destruct Hou as [E|E]; [inversion E; subst u|discriminate].
              destruct Hm' as (m & R & E'). exists (n + m). rewrite up_run_app.
              destruct (up_run try u0 n) as [la ua]. cbn [fst snd] in *.
              destruct (up_run try ua m) as [lb ub]. cbn [fst snd] in *. subst la. rewrite R. split; auto.
              unfold UINV. rewrite Hup'. auto.
            * destruct Hm' as [R ->]. exists n. rewrite R. simpl. rewrite app_nil_r. split; auto.
              rewrite Hup'. auto.
          + destruct Hu as (l & Hl & A). simpl in Hl. rewrite app_nil_r in Hl. subst l.
            exists n. rewrite A. simpl. rewrite app_nil_r. split; auto. rewrite Hup'. exact I.
        - destruct Hu as [(l & Hl & A) Hup']. simpl in Hl. rewrite app_nil_r in Hl. subst l.
          exists n. rewrite A. simpl. rewrite app_nil_r. split; auto. rewrite Hup'. exact I. }
      destruct Hstep as [Hstep Ht]. specialize (IH s' _ Ht Hstep). rewrite <- app_assoc in IH. exact IH.
Qed.

Lemma up_run_length try u n : length (fst (up_run try u n)) = n.
Proof.
  revert u. induction n as [|n IH]; intros u; simpl; auto.
  destruct (up_step try u) as [u1 a]. specialize (IH u1). destruct (up_run try u1 n) as [l u2]. simpl in *. lia.
Qed.

Definition u_ctype (t : ctype) : bool := match t with TBU | TTBU | TBO | TTBO | TFEC => true | _ => false end.
Definition u_try (t : ctype) : bool := match t with TTBU | TTBO => true | _ => false end.

Lemma usuf_fob_new cap seed w : usuf w (snd (fob_new P cap seed w)).
Proof.
  unfold fob_new. pose proof (usuf_fub_new cap w) as H. destruct (fub_new cap w) as [f w1]. cbn [snd] in H.
  destruct (heap_cap_for cap); cbn [snd]; [eapply usuf_trans; [exact H|us]|].
  eapply usuf_trans; [exact H|apply usuf_fub_drop].
Qed.

Lemma build_up ty p inits ups w :
  u_ctype ty = true ->
  let '(k', w') := build P ty p inits ups w in
  usuf w w' /\ uty k'
  /\ (up_of k' = Some (u_try ty, Some (mk_upstream ups (p_hlo p) (p_hhi p))) \/ up_of k' = None).
Proof.
  intros Hty. unfold build. destruct ty; try discriminate.
  - pose proof (usuf_fub_new (p_cap p) w) as H. destruct (fub_new (p_cap p) w) as [f w1]. cbn [snd] in H.
    split; [exact H|]. split; [exact I|left; reflexivity].
  - pose proof (usuf_fob_new (p_cap p) 0%Z w) as H. destruct (fob_new P (p_cap p) 0%Z w) as [[q|] w1]; cbn [snd] in H.
    + split; [exact H|]. split; [exact I|left; reflexivity].
    + split; [eapply usuf_trans; [exact H|us]|]. split; [exact I|right; reflexivity].
  - pose proof (usuf_fub_new (p_cap p) w) as H. destruct (fub_new (p_cap p) w) as [f w1]. cbn [snd] in H.
    split; [exact H|]. split; [exact I|left; reflexivity].
  - pose proof (usuf_fob_new (p_cap p) 0%Z w) as H. destruct (fob_new P (p_cap p) 0%Z w) as [[q|] w1]; cbn [snd] in H.
    + split; [exact H|]. split; [exact I|left; reflexivity].
    + split; [eapply usuf_trans; [exact H|us]|]. split; [exact I|right; reflexivity].
  - pose proof (usuf_fub_new (p_cap p) w) as H. destruct (fub_new (p_cap p) w) as [f w1]. cbn [snd] in H.
    split; [exact H|]. split; [exact I|left; reflexivity].
Qed.

(** *** C10: over any history of a buffered adapter or for_each_concurrent, the polls of the
    upstream, in chronological order, are exactly what polling that upstream alone that many
    times in sequence gives: every step once, in order, none skipped, none repeated *)
Theorem upstream_polled_sequentially ty p inits ups rest :
  u_ctype ty = true ->
  let U := uppolls_in init_state (OBuild ty p inits ups :: rest) in
  U = fst (up_run (u_try ty) (mk_upstream ups (p_hlo p) (p_hhi p)) (length U)).
Proof.
  intros Hty. cbv zeta.
  set (u0 := mk_upstream ups (p_hlo p) (p_hhi p)).
  assert (H : UINV (u_try ty) u0 (st_coll (run_state P init_state (OBuild ty p inits ups :: rest)))
                   (uppolls_in init_state (OBuild ty p inits ups :: rest))).
  { unfold uppolls_in. cbn [run_state run_logs]. cbn [is_dead init_state st_coll]. cbn [app flat_map].
    set (s1 := fst (step_op P init_state (OBuild ty p inits ups))).
    assert (Hs1 : upp (log (st_world s1)) = [] /\ uty (st_coll s1) /\ UINV (u_try ty) u0 (st_coll s1) []).
    { unfold s1, step_op. cbn [is_dead init_state st_coll st_world step_core].
      pose proof (@build_up ty p inits ups (begin_op (op_inj (OBuild ty p inits ups)) empty_world) Hty) as Hb.
      destruct (build P ty p inits ups _) as [k' w']. destruct Hb as ((l & Hl & A) & Hu & Hup).
      cbn [fst st_coll st_world]. simpl in Hl. rewrite app_nil_r in Hl. rewrite Hl. splits; auto.
      exists 0. split; [reflexivity|]. destruct Hup as [-> | ->]; [|exact I]. split; auto. }
    destruct Hs1 as (A & B & C). rewrite A. cbn [rev app].
    apply (@upstream_ledger_from s1 rest (u_try ty) u0 [] B C). }
  destruct H as (n & Hn & _). rewrite <- Hn at 1. rewrite <- Hn, up_run_length. reflexivity.
Qed.

End Steps.
