(** * FobOrder: [FuturesOrderedBounded] is a double-ended queue (C04), by connecting the slot
      map of running futures to the abstract ordering invariant of [OrderProofs] *)
From FB Require Import Base Syntax World SlotMap Fub Unbounded Ordered Tactics SlotMapProofs WorldProofs FubProofs
  UnboundedProofs OrderedProofs WordArith OrderProofs.
From Coq Require Import Permutation.
Set Implicit Arguments.
Local Open Scope Z_scope.

(** the children of a slot array, in slot order *)
Fixpoint occ_list (sl : list slot) : list child :=
  match sl with
  | [] => []
  | Occ c :: t => c :: occ_list t
  | Free _ :: t => occ_list t
  end.

Definition run_of (m : slotmap) : list Z := map cidx (occ_list (slots m)).

Lemma occ_list_app a b : occ_list (a ++ b) = occ_list a ++ occ_list b.
Proof. induction a as [|[c|n] a IH]; simpl; auto. rewrite IH; reflexivity. Qed.

Lemma occ_list_length sl : length (occ_list sl) = occ_count sl.
Proof. induction sl as [|[c|n] t IH]; simpl; auto. Qed.

Lemma split_nth {A} (l : list A) i x : nth_error l i = Some x -> exists a b, l = a ++ x :: b /\ length a = i.
Proof. apply nth_error_split. Qed.

Lemma upd_at {A} (a b : list A) x y : upd (a ++ x :: b) (length a) y = a ++ y :: b.
Proof. induction a; simpl; auto. rewrite IHa; reflexivity. Qed.

(** in-place update keeps the indices; insert adds one; remove takes one away *)
Lemma run_of_set m i c c' :
  sm_get m i = Some c -> cidx c' = cidx c -> run_of (sm_set m i c') = run_of m.
Proof.
  unfold sm_get, run_of, sm_set. simpl. intros Hg Hc.
  destruct (nth_error (slots m) i) as [[c0|]|] eqn:Hn; try discriminate. inversion Hg; subst c0.
  destruct (split_nth _ _ Hn) as (a & b & -> & <-). rewrite upd_at, !occ_list_app. simpl.
  rewrite !map_app. simpl. rewrite Hc. reflexivity.
Qed.

Lemma run_of_insert m c key m' :
  sm_insert m c = InsOk key m' -> Permutation (run_of m') (cidx c :: run_of m).
Proof.
  unfold sm_insert, run_of. destruct (nth_error (slots m) (free_head m)) as [[?|n]|] eqn:Hn; try discriminate.
  intros E; inversion E; subst; clear E. simpl.
  destruct (split_nth _ _ Hn) as (a & b & Hs & Hl). rewrite Hs, <- Hl, upd_at, !occ_list_app. simpl.
  rewrite !map_app. simpl. apply Permutation_sym. apply Permutation_middle.
Qed.

Lemma run_of_remove m i c :
  sm_get m i = Some c -> Permutation (run_of m) (cidx c :: run_of (sm_remove m i)).
Proof.
  unfold sm_get, sm_remove, run_of. intros Hg.
  destruct (nth_error (slots m) i) as [[c0|]|] eqn:Hn; try discriminate. inversion Hg; subst c0. simpl.
  destruct (split_nth _ _ Hn) as (a & b & Hs & Hl). rewrite Hs, <- Hl, upd_at, !occ_list_app. simpl.
  rewrite !map_app. simpl. apply Permutation_sym. apply Permutation_middle.
Qed.

Lemma run_of_map f m : (forall c, cidx (f c) = cidx c -> True) ->
  run_of (sm_map_children f m) = map (fun c => cidx (f c)) (occ_list (slots m)).
Proof.
  intros _. unfold run_of, sm_map_children. simpl.
  induction (slots m) as [|[c|n] t IH]; simpl; auto. rewrite IH. reflexivity.
Qed.

Lemma filled0_run_nil m : sm_wf m -> filled m = 0%nat -> run_of m = [].
Proof.
  intros [(l & Hc & Hnd & Hv & Hf)] Hz. unfold run_of.
  pose proof (vacant_count Hnd Hv) as Hcnt. rewrite <- occ_list_length in Hcnt.
  destruct (occ_list (slots m)); auto. simpl in Hcnt. lia.
Qed.

Lemma poll_child_cidx k c b s w : cidx (fst (fst (poll_child k c b s w))) = cidx c.
Proof.
  unfold poll_child. destruct (cdone c); simpl; auto.
  destruct (cscript c) as [|[acts r0] rest]; simpl; auto.
Qed.

Lemma drain_run k n f t w :
  let '(f', pr, _) := drain k n f t w in
  run_of (tasks f') = run_of (tasks f)
  /\ match pr with PReady i c r => sm_get (tasks f') i = Some c | _ => True end.
Proof.
  revert f w. induction n as [|n IH]; intros f w; cbn [drain]; auto.
  destruct (pop (blk f) w) as [pr w1]. destruct pr as [| |i]; auto.
  destruct (sm_get (tasks f) i) as [c|] eqn:Hg; [|apply IH].
  pose proof (poll_child_cidx k c (blk f) i w1) as Hc.
  destruct (poll_child k c (blk f) i w1) as [[c' r] w2]. simpl in Hc.
  pose proof (@run_of_set (tasks f) i c c' Hg Hc) as Hs.
  destruct (is_ready r).
  - split; auto. simpl. rewrite sm_get_set, Nat.eqb_refl.
    apply sm_get_lt in Hg. destruct (Nat.ltb_spec i (sm_cap (tasks f))); auto; lia.
  - specialize (IH {| tasks := sm_set (tasks f) i c'; blk := blk f |} w2).
    destruct (drain k n {| tasks := sm_set (tasks f) i c'; blk := blk f |} t w2) as [[f' pr'] w'].
    destruct IH as [I1 I2]. split; auto. simpl in I1. congruence.
Qed.

Section WithParams.
Variable P : params.
Hypothesis HP : params_ok P.

Lemma HW2 : (2 <= pW P)%nat. Proof. destruct HP as (_ & _ & _ & H). exact H. Qed.

Lemma fub_poll_next_run k f t w :
  let '(f', sp, _) := fub_poll_next P k f t w in
  match sp with
  | SItem _ c => Permutation (run_of (tasks f)) (cidx c :: run_of (tasks f'))
  | _ => run_of (tasks f') = run_of (tasks f)
  end.
Proof.
  unfold fub_poll_next, poll_inner, poll_inner_no_remove.
  destruct (Nat.eqb (fub_len f) 0); auto.
  pose proof (drain_run k (pB P) f t (register (blk f) t w)) as H.
  destruct (drain k (pB P) f t (register (blk f) t w)) as [[f1 pr] w1]. destruct H as [H1 H2].
  destruct pr as [| |i c r]; auto.
  unfold fub_remove. rewrite H2. simpl. rewrite <- H1. apply run_of_remove; auto.
Qed.

Definition fob_oinv (q : fob) : Prop := oinv P (run_of (tasks (fo_inner q))) (fo_ord q).

(** ** push_back / push_front *)
Theorem fob_push_order front q c w q' w' :
  fob_oinv q -> Z.of_nat (fob_len q) + 1 < msb P -> sm_wf (tasks (fo_inner q)) ->
  fob_try_push P front q c w = (Some q', w') ->
  fob_oinv q'
  /\ (front = false -> off P (fo_ord q) (nin (fo_ord q)) = Z.of_nat (length (held (run_of (tasks (fo_inner q))) (fo_ord q))))
  /\ (front = true -> off P (fo_ord q') (nout (fo_ord q')) = 0
        /\ forall i, In i (held (run_of (tasks (fo_inner q))) (fo_ord q)) -> off P (fo_ord q') i = off P (fo_ord q) i + 1).
Proof.
  intros Hinv Hroom Hwf Hpush. unfold fob_try_push in Hpush.
  set (idx := if front then wdec P (nout (fo_ord q)) else nin (fo_ord q)) in *.
  unfold fub_try_push in Hpush.
  destruct (sm_insert (tasks (fo_inner q)) (child_set_idx c idx)) as [key m| |] eqn:Hi; try discriminate.
  inversion Hpush; subst; clear Hpush.
  pose proof (run_of_insert _ _ Hi) as Hperm. simpl in Hperm.
  assert (Hlen : length (held (run_of (tasks (fo_inner q))) (fo_ord q)) = fob_len q).
  { unfold held, hidx, run_of, fob_len, fub_len. rewrite app_length, !map_length, occ_list_length.
    destruct Hwf as [(l & Hc & Hnd & Hv & Hf)]. pose proof (vacant_count Hnd Hv). lia. }
  unfold fob_oinv in *. simpl.
  destruct front; simpl in *.
  - destruct (@oinv_push_front P HW2 _ _ Hinv) as (A & B & C); [rewrite Hlen; lia|].
    splits; try discriminate.
    + eapply oinv_perm; [apply Permutation_sym; exact Hperm|]. exact A.
    + intros _. split; auto.
  - destruct (@oinv_push_back P HW2 _ _ Hinv) as (A & B); [rewrite Hlen; lia|].
    splits; try discriminate.
    + eapply oinv_perm; [apply Permutation_sym; exact Hperm|]. exact A.
    + intros _. exact B.
Qed.

(** ** re-basing *)
Lemma fob_rebase_oinv q :
  fob_oinv q -> fob_oinv (fob_rebase P q) /\ nout (fo_ord (fob_rebase P q)) < msb P.
Proof.
  intros Hinv. unfold fob_rebase.
  pose proof (@rebase_below P HW2 (fo_ord q) (oi_out Hinv)) as Hb.
  destruct (msb_set P (nout (fo_ord q))); [|split; auto].
  split; auto. unfold fob_oinv. simpl.
  destruct (@oinv_rebase P HW2 _ _ Hinv) as [A _].
  replace (run_of (sm_map_children (flip_child P) (tasks (fo_inner q))))
    with (map (flip P) (run_of (tasks (fo_inner q)))); auto.
  unfold run_of, sm_map_children. simpl. clear.
  induction (slots (tasks (fo_inner q))) as [|[c|n] t IH]; simpl; auto. rewrite IH. reflexivity.
Qed.

(** ** the park loop *)
Lemma fob_loop_order k n q t w :
  fob_oinv q -> nout (fo_ord q) < msb P -> ~ In (nout (fo_ord q)) (hidx (fo_ord q)) ->
  let '(q', sp, _) := fob_loop P k n q t w in
  fob_oinv q'
  /\ match sp with
     | SItem _ c => cidx c = nout (fo_ord q)
                    /\ Permutation (held (run_of (tasks (fo_inner q))) (fo_ord q))
                                   (nout (fo_ord q) :: held (run_of (tasks (fo_inner q'))) (fo_ord q'))
     | SNone => (sm_wf (tasks (fo_inner q')) -> fub_len (fo_inner q') = 0%nat -> oheap (fo_ord q') = [])
                /\ Permutation (held (run_of (tasks (fo_inner q))) (fo_ord q)) (held (run_of (tasks (fo_inner q'))) (fo_ord q'))
     | SPending => Permutation (held (run_of (tasks (fo_inner q))) (fo_ord q)) (held (run_of (tasks (fo_inner q'))) (fo_ord q'))
     end.
Proof.
  revert q w. induction n as [|n IH]; intros q w Hinv Hb Hni; cbn [fob_loop].
  - split; auto.
  - pose proof (fub_poll_next_run k (fo_inner q) t w) as Hr.
    destruct (fub_poll_next P k (fo_inner q) t w) as [[f sp] w1].
    destruct sp as [| |tk c]; cbn [fo_inner fo_ord].
    + unfold fob_oinv in *. simpl. rewrite Hr. split; auto.
    + unfold fob_oinv in *. simpl. rewrite Hr. split; auto. split; auto.
      intros Hwf Hz. eapply (@nothing_running_nothing_held P HW2); eauto.
      rewrite <- (filled0_run_nil Hwf Hz). rewrite Hr. exact Hinv.
    + assert (Hinv1 : oinv P (cidx c :: run_of (tasks f)) (fo_ord q)).
      { eapply oinv_perm; [exact Hr|]. exact Hinv. }
      destruct (Z.eqb_spec (cidx c) (nout (fo_ord q))) as [He|Hne].
      * (* the front: release it directly *)
        assert (Hp : Permutation (held (run_of (tasks (fo_inner q))) (fo_ord q))
                                 (nout (fo_ord q) :: held (run_of (tasks f)) (fo_ord q))).
        { unfold held. rewrite <- He. change (cidx c :: run_of (tasks f) ++ hidx (fo_ord q)) with ((cidx c :: run_of (tasks f)) ++ hidx (fo_ord q)).
          apply Permutation_app_tail. exact Hr. }
        destruct (@oinv_release P HW2 _ _ (run_of (tasks f)) (ord_set_out (fo_ord q) (winc P (nout (fo_ord q)))) _ Hinv Hp (Permutation_refl _) eq_refl eq_refl) as [A _].
        unfold fob_oinv. simpl. split; auto.
      * (* not the front: park it and go on *)
        unfold ord_park. destruct (vec_grow (length (oheap (fo_ord q))) (hcap (fo_ord q))) as [c' a].
        set (o1 := {| oheap := oheap (fo_ord q) ++ [(cidx c, tk)]; hcap := c'; nin := nin (fo_ord q); nout := nout (fo_ord q) |}).
        pose proof (@oinv_park P _ _ _ tk c' Hinv1) as Hpark. fold o1 in Hpark.
        specialize (IH {| fo_inner := f; fo_ord := o1 |} (count_alloc a w1)).
        unfold fob_oinv in IH at 1. simpl in IH. specialize (IH Hpark Hb).
        assert (Hni1 : ~ In (nout (fo_ord q)) (hidx o1)).
        { unfold hidx, o1. simpl. rewrite map_app, in_app_iff. simpl. intros [H|[H|[]]]; auto. }
        specialize (IH Hni1).
        destruct (fob_loop P k n {| fo_inner := f; fo_ord := o1 |} t (count_alloc a w1)) as [[q' sp'] w'].
        destruct IH as [I1 I2]. split; auto.
        assert (Hp1 : Permutation (held (run_of (tasks (fo_inner q))) (fo_ord q)) (held (run_of (tasks f)) o1)).
        { unfold held, hidx, o1. simpl. rewrite map_app. simpl.
          eapply Permutation_trans; [apply Permutation_app_tail; exact Hr|]. simpl.
          rewrite app_assoc. apply Permutation_cons_append. }
        destruct sp'; simpl in *.
        -- eapply Permutation_trans; eauto.
        -- destruct I2 as [I2 I3]. split; auto. eapply Permutation_trans; eauto.
        -- destruct I2 as [I2 I3]. split; auto. eapply Permutation_trans; eauto.
Qed.

(** ** one poll: only the front is ever released; the invariant is kept; None means empty *)
Theorem fob_poll_order k q t w :
  fob_oinv q ->
  let '(q', sp, _) := fob_poll_next P k q t w in
  fob_oinv q'
  /\ match sp with
     | SNone => sm_wf (tasks (fo_inner q')) -> fub_len (fo_inner q') = 0%nat -> fob_len q' = 0%nat
     | _ => True
     end.
Proof.
  intros Hinv. unfold fob_poll_next.
  destruct (fob_rebase_oinv Hinv) as [Hinv1 Hb].
  set (q1 := fob_rebase P q) in *.
  destruct (ord_try_release P (fo_ord q1)) as [[tk o]|] eqn:Hr.
  - destruct (@try_release_sound P HW2 _ _ _ _ Hinv1 Hr) as (A & _). split; auto.
  - assert (Hni : ~ In (nout (fo_ord q1)) (hidx (fo_ord q1))).
    { intros Hin. destruct (@try_release_complete P HW2 _ _ Hinv1 Hb Hin) as (t0 & o' & Hc). congruence. }
    pose proof (@fob_loop_order k (S (fub_len (fo_inner q1))) q1 t w Hinv1 Hb Hni) as H.
    destruct (fob_loop P k (S (fub_len (fo_inner q1))) q1 t w) as [[q' sp] w'].
    destruct H as [A B]. split; auto. destruct sp; auto.
    destruct B as [B _]. intros Hwf Hz. unfold fob_len. rewrite Hz, (B Hwf Hz). reflexivity.
Qed.

(** a parked front is always released: the queue never gets stuck behind a finished head *)
Theorem fob_parked_front_is_released k q t w :
  fob_oinv q -> In (nout (fo_ord (fob_rebase P q))) (hidx (fo_ord (fob_rebase P q))) ->
  exists tk c q' w', fob_poll_next P k q t w = (q', SItem tk c, w').
Proof.
  intros Hinv Hin. unfold fob_poll_next.
  destruct (fob_rebase_oinv Hinv) as [Hinv1 Hb].
  destruct (@try_release_complete P HW2 _ _ Hinv1 Hb Hin) as (t0 & o' & Hc). rewrite Hc. eauto.
Qed.

(** construction: [new] (any start value of the counters) and [from_iter] *)
Theorem fob_new_order cap seed w q w' :
  fob_new P cap seed w = (NewOk q, w') -> fob_oinv q.
Proof.
  unfold fob_new, heap_cap_for, fub_new. intros H.
  destruct (alloc_block cap (count_alloc (if Nat.eqb cap 0 then 0 else 1) w)) as [b w1].
  inversion H; subst; clear H. unfold fob_oinv. simpl.
  assert (Hrun : run_of (sm_new cap) = []).
  { unfold run_of, sm_new. simpl. generalize 1%nat. induction cap; simpl; auto. }
  rewrite Hrun. pose proof (@wmod_pos P HW2). pose proof (@msb_pos P HW2).
  constructor; simpl; auto.
  - apply Z.mod_pos_bound; auto.
  - rewrite Z.add_0_r. rewrite Z.mod_mod; lia.
  - constructor.
Qed.

(** from_iter: indices 0, 1, ..., n-1 in input order *)
Lemma index_children_cidx l i :
  0 <= i -> i + Z.of_nat (length l) <= wmod P ->
  map cidx (index_children P l i) = map (fun k => i + Z.of_nat k) (seq 0 (length l)).
Proof.
  revert i. induction l as [|c l IH]; intros i Hi Hb; simpl; auto.
  f_equal; [lia|].
  destruct l as [|c' l']; [reflexivity|].
  assert (Hw : winc P i = i + 1).
  { unfold winc. apply Z.mod_small. simpl length in Hb. lia. }
  rewrite Hw, IH by (simpl length in *; lia).
  rewrite <- seq_shift, map_map. apply map_ext. intros k. lia.
Qed.

Lemma run_of_from_list cs : run_of (sm_from_list cs) = map cidx cs.
Proof. unfold run_of, sm_from_list. simpl. induction cs; simpl; auto. rewrite IHcs. reflexivity. Qed.

Theorem fob_from_list_order l w :
  Z.of_nat (length l) < msb P -> fob_oinv (fst (fob_from_list P l w)).
Proof.
  intros Hlen. pose proof (@wmod_2msb P HW2) as Hw. pose proof (@msb_pos P HW2) as Hm.
  unfold fob_from_list, fub_from_list.
  destruct (alloc_block _ _) as [b w1]. unfold fob_oinv. simpl.
  rewrite run_of_from_list.
  assert (Hil : forall l0 i, length (index_children P l0 i) = length l0) by (induction l0; simpl; intros; auto).
  rewrite index_children_cidx by lia.
  assert (Hheld : held (map (fun k => 0 + Z.of_nat k) (seq 0 (length l)))
                       {| oheap := []; hcap := 0; nin := Z.of_nat (length l) mod wmod P; nout := 0 |}
                  = zseq (length l)).
  { unfold held, hidx. simpl. rewrite app_nil_r. unfold zseq. apply map_ext. intros; lia. }
  constructor; rewrite ?Hheld; simpl; rewrite ?zseq_length.
  - lia.
  - reflexivity.
  - apply Forall_forall. intros x Hx. apply zseq_In in Hx. lia.
  - exact Hlen.
  - unfold off. simpl. rewrite (map_ext_in _ (fun x => x)); [rewrite map_id; apply Permutation_refl|].
    intros x Hx. apply zseq_In in Hx. rewrite Z.sub_0_r. apply Z.mod_small. lia.
Qed.

End WithParams.
