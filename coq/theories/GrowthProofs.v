(** * GrowthProofs: allocation discipline of the unbounded collections (C18, second half)

    The capacities of the groups grow geometrically: each group is at least [growth] times as
    large as the one before it ([geo]).  The poll loop never allocates, only discards groups, and
    keeps the last (largest) one; a push allocates only when it creates a group, which it does
    only when there is none or the last one is full, and the new group is [growth] times the
    last one.  Hence: the number of groups alive is at most 1 + log_growth(cap_last / cap_first);
    the capacity of the last group never decreases and is multiplied by [growth] at each
    creation, and a creation needs [held >= cap_last], so over any history the number of group
    creations — the only allocating events — is at most log_growth(growth * peak / cap_first) + 1. *)
From FB Require Import Base Syntax World SlotMap Fub Unbounded Tactics SlotMapProofs AllocProofs UnboundedProofs.
Set Implicit Arguments.

Fixpoint geo (g : nat) (gs : list fub) : Prop :=
  match gs with
  | a :: ((b :: _) as t) => g * fub_cap a <= fub_cap b /\ geo g t
  | _ => True
  end.

Definition last_cap (gs : list fub) : nat :=
  match last_opt gs with Some l => fub_cap l | None => 0 end.

Lemma geo_cons g a t : geo g (a :: t) -> geo g t.
Proof. destruct t; simpl; tauto. Qed.

Lemma geo_remove g gs i : 1 <= g -> geo g gs -> geo g (remove_nth gs i).
Proof.
  intros Hg. revert i. induction gs as [|a t IH]; intros i H; [destruct i; exact I|].
  destruct i as [|i]; [apply geo_cons in H; exact H|]. simpl.
  destruct t as [|b t']; [destruct i; exact I|].
  destruct H as [H1 H2]. specialize (IH i H2).
  destruct i as [|i]; simpl in *.
  - destruct t' as [|c t'']; [exact I|]. destruct H2 as [H2 H3]. split; auto. nia.
  - destruct (remove_nth t' i) eqn:E; simpl; auto.
Qed.

Lemma geo_upd_same g gs i x :
  (forall y, nth_error gs i = Some y -> fub_cap x = fub_cap y) -> geo g gs -> geo g (upd gs i x).
Proof.
  revert i. induction gs as [|a t IH]; intros i Hc H; [destruct i; exact I|].
  destruct i as [|i]; simpl.
  - specialize (Hc a eq_refl). destruct t; simpl in *; auto; rewrite Hc; exact H.
  - destruct t as [|b t']; [destruct i; exact I|].
    destruct H as [H1 H2]. specialize (IH i Hc H2).
    destruct i as [|i]; simpl in *.
    + specialize (Hc b eq_refl). rewrite Hc. split; auto.
    + split; auto.
Qed.

Lemma geo_snoc g gs x :
  geo g gs -> (forall l, last_opt gs = Some l -> g * fub_cap l <= fub_cap x) -> geo g (gs ++ [x]).
Proof.
  induction gs as [|a t IH]; intros H Hl; [exact I|].
  destruct t as [|b t']; simpl.
  - split; auto; try (apply Hl; reflexivity).
  - destruct H as [H1 H2]. split; auto. apply IH; auto.
    intros l Hlast. apply Hl. rewrite last_opt_nth in *. simpl in *. exact Hlast.
Qed.

(** the number of groups alive is logarithmic in the ratio of the last to the first capacity *)
Lemma geo_pow g a t :
  1 <= g -> geo g (a :: t) -> 1 <= fub_cap a -> g ^ length t * fub_cap a <= last_cap (a :: t).
Proof.
  intros Hg1. revert a. induction t as [|b t IH]; intros a H Ha.
  - unfold last_cap. simpl. lia.
  - destruct H as [H1 H2].
    assert (Hb : 1 <= fub_cap b) by nia.
    specialize (IH b H2 Hb).
    assert (Hl : last_cap (a :: b :: t) = last_cap (b :: t)).
    { unfold last_cap. rewrite !last_opt_nth. reflexivity. }
    rewrite Hl. simpl. nia.
Qed.

Lemma remove_nth_nil {A} (l : list A) i x : nth_error l i = Some x -> remove_nth l i = [] -> l = [x].
Proof.
  destruct l as [|a [|b t]]; destruct i as [|[|i]]; simpl; intros H1 H2; try discriminate; congruence.
Qed.

Section WithParams.
Variable P : params.
Hypothesis Hg : 1 <= pGrowth P.

Lemma poll_group_cap mrg g t w : fub_cap (fst (fst (poll_group P mrg g t w))) = fub_cap g.
Proof.
  assert (Hd : forall k n f t w, fub_cap (fst (fst (drain k n f t w))) = fub_cap f).
  { intros k n. induction n as [|n IH]; intros f t0 w0; cbn [drain]; auto.
    destruct (pop (blk f) w0) as [pr w1]. destruct pr as [| |i]; auto.
    destruct (sm_get (tasks f) i) as [c|]; [|apply IH].
    destruct (poll_child k c (blk f) i w1) as [[c' r] w2].
    destruct (is_ready r); [unfold fub_cap; simpl; apply sm_set_cap|].
    rewrite IH. unfold fub_cap; simpl. apply sm_set_cap. }
  assert (Hr : forall f i w, fub_cap (fst (fub_remove f i w)) = fub_cap f).
  { intros f i w0. unfold fub_remove. destruct (sm_get (tasks f) i) eqn:Hg0; auto.
    unfold fub_cap; simpl. unfold sm_cap, sm_remove. unfold sm_get in Hg0.
    destruct (nth_error (slots (tasks f)) i) as [[?|?]|]; try discriminate. simpl; try apply upd_length. }
  unfold poll_group. destruct mrg.
  - unfold mb_poll_next. generalize (S (fub_len g)). intros n. revert g w.
    induction n as [|n IH]; intros g w; cbn [mb_poll_loop]; auto.
    unfold poll_inner_no_remove. destruct (Nat.eqb (fub_len g) 0); auto.
    pose proof (Hd KSrc (pB P) g t (register (blk g) t w)) as H1.
    destruct (drain KSrc (pB P) g t (register (blk g) t w)) as [[f1 pr] w1]. simpl in H1.
    destruct pr as [| |i c r]; auto.
    assert (Hgo : fub_cap (fst (fst (let '(f0, w0) := fub_remove f1 i w1 in mb_poll_loop P n f0 t w0))) = fub_cap g).
    { pose proof (Hr f1 i w1) as H2. destruct (fub_remove f1 i w1) as [f2 w2]. simpl in H2. rewrite IH. congruence. }
    destruct r; auto.
  - unfold fub_poll_next, poll_inner, poll_inner_no_remove. destruct (Nat.eqb (fub_len g) 0); auto.
    pose proof (Hd KFut (pB P) g t (register (blk g) t w)) as H1.
    destruct (drain KFut (pB P) g t (register (blk g) t w)) as [[f1 pr] w1]. simpl in H1.
    destruct pr as [| |i c r]; auto.
    pose proof (Hr f1 i w1) as H2. destruct (fub_remove f1 i w1) as [f2 w2]. simpl in *. congruence.
Qed.

Lemma na_poll_group mrg g t w : nalloc (snd (poll_group P mrg g t w)) = nalloc w.
Proof. unfold poll_group. destruct mrg; [apply na_mb_poll_next | apply na_fub_poll_next]. Qed.

Lemma last_cap_upd gs i x :
  (forall y, nth_error gs i = Some y -> fub_cap x = fub_cap y) -> last_cap (upd gs i x) = last_cap gs.
Proof.
  intros Hc. unfold last_cap. rewrite !last_opt_nth, upd_length, nth_error_upd.
  destruct (Nat.eqb_spec i (pred (length gs))) as [->|]; auto.
  destruct (Nat.ltb_spec (pred (length gs)) (length gs)).
  - destruct (nth_error gs (pred (length gs))) eqn:E; [rewrite (Hc _ eq_refl); auto|].
    apply nth_error_None in E. lia.
  - destruct gs; simpl in *; auto. lia.
Qed.

(** the poll loop: never allocates, keeps the geometric shape and the last (largest) group *)
Theorem fu_loop_growth mrg n u t w :
  geo (pGrowth P) (groups u) ->
  let '(u', sp, w') := fu_loop P mrg n u t w in
  geo (pGrowth P) (groups u') /\ last_cap (groups u') = last_cap (groups u) /\ nalloc w' = nalloc w.
Proof.
  revert u w. induction n as [|n IH]; intros u w Hgeo; cbn [fu_loop].
  - destruct (if mrg then _ else _); auto.
  - set (cur := if Nat.leb (length (groups u)) (cursor u) then 0 else cursor u).
    destruct (nth_error (groups u) cur) as [g|] eqn:Hgc; [|auto].
    pose proof (poll_group_cap mrg g t w) as Hcap. pose proof (na_poll_group mrg g t w) as Hna.
    destruct (poll_group P mrg g t w) as [[g' sp] w1]. simpl in Hcap, Hna.
    assert (Hsame : forall y, nth_error (groups u) cur = Some y -> fub_cap g' = fub_cap y).
    { intros y Hy. rewrite Hgc in Hy. inversion Hy; subst. auto. }
    destruct sp.
    + specialize (IH (set_groups u (upd (groups u) cur g') (S cur)) w1 (@geo_upd_same (pGrowth P) (groups u) cur g' Hsame Hgeo)).
      destruct (fu_loop P mrg n (set_groups u (upd (groups u) cur g') (S cur)) t w1) as [[u' sp'] w'].
      destruct IH as (I1 & I2 & I3). simpl in I2. rewrite last_cap_upd in I2 by auto. splits; auto; congruence.
    + destruct (remove_nth (groups u) cur) eqn:Hr.
      * (* it was the only group *)
        assert (Hone : groups u = [g]) by (eapply remove_nth_nil; eauto).
        simpl. splits; auto. unfold last_cap. rewrite Hone. simpl. auto.
      * rewrite <- Hr.
        destruct (Nat.eqb_spec cur (length (remove_nth (groups u) cur))) as [Hlast|Hnl].
        -- (* rotation of the last group: the list is the old one with g' in place of g *)
           assert (Heq : remove_nth (groups u) cur ++ [g'] = upd (groups u) cur g').
           { destruct (nth_error_split _ _ Hgc) as (l1 & l2 & Hs & Hl1).
             assert (l2 = []).
             { rewrite Hs, <- Hl1 in Hlast. clear - Hlast.
               assert (H : remove_nth (l1 ++ g :: l2) (length l1) = l1 ++ l2) by (induction l1; simpl; auto; rewrite IHl1; auto).
               rewrite H, app_length in Hlast. destruct l2; auto. simpl in Hlast. lia. }
             subst l2. rewrite Hs, <- Hl1. clear.
             induction l1; simpl; auto. rewrite IHl1. reflexivity. }
           specialize (IH (set_groups u (remove_nth (groups u) cur ++ [g']) 0) w1).
           simpl in IH. rewrite Heq in IH. specialize (IH (@geo_upd_same (pGrowth P) (groups u) cur g' Hsame Hgeo)).
           rewrite Heq.
           destruct (fu_loop P mrg n (set_groups u (upd (groups u) cur g') 0) t w1) as [[u' sp'] w'].
           destruct IH as (I1 & I2 & I3). rewrite last_cap_upd in I2 by auto. splits; auto; congruence.
        -- (* a group in the middle is discarded: the last one stays *)
           specialize (IH (set_groups u (remove_nth (groups u) cur) cur) (fub_drop g' w1)).
           simpl in IH. specialize (IH (@geo_remove (pGrowth P) (groups u) cur Hg Hgeo)).
           destruct (fu_loop P mrg n (set_groups u (remove_nth (groups u) cur) cur) t (fub_drop g' w1)) as [[u' sp'] w'].
           destruct IH as (I1 & I2 & I3). splits; auto.
           ++ rewrite I2. unfold last_cap. rewrite !last_opt_nth.
              destruct (nth_error_split _ _ Hgc) as (l1 & l2 & Hs & Hl1).
              assert (Hrm : remove_nth (groups u) cur = l1 ++ l2).
              { rewrite Hs, <- Hl1. clear. induction l1; simpl; auto. rewrite IHl1; auto. }
              assert (Hne : l2 <> []).
              { intros ->. apply Hnl. rewrite Hrm, app_nil_r. auto. }
              rewrite Hrm, Hs, !app_length. simpl.
              destruct l2 as [|x l2]; [congruence|]. simpl.
              replace (pred (length l1 + S (length l2))) with (length l1 + length l2) by lia.
              replace (pred (length l1 + S (S (length l2)))) with (length l1 + S (length l2)) by lia.
              rewrite !nth_error_app2 by lia.
              replace (length l1 + length l2 - length l1) with (length l2) by lia.
              replace (length l1 + S (length l2) - length l1) with (S (length l2)) by lia. reflexivity.
           ++ rewrite I3, na_fub_drop. auto.
    + simpl. splits; auto.
      * apply geo_upd_same; auto.
      * apply last_cap_upd; auto.
Qed.

Lemma na_fub_new cap w : nalloc (snd (fub_new cap w)) <= nalloc w + 2 /\ fub_cap (fst (fub_new cap w)) = cap.
Proof.
  unfold fub_new. simpl. split; [destruct (Nat.eqb cap 0); lia|]. unfold fub_cap. simpl. apply sm_new_cap.
Qed.

Lemma na_push_group u g w : nalloc (snd (push_group u g w)) <= nalloc w + 1.
Proof.
  unfold push_group, vec_grow. destruct (Nat.ltb (length (groups u)) (gcap u)); simpl; lia.
Qed.

Lemma fub_try_push_cap f c w f' w' : fub_try_push f c w = (PushOk f', w') -> fub_cap f' = fub_cap f.
Proof.
  unfold fub_try_push. destruct (sm_insert (tasks f) c) as [key m| |] eqn:Hi; try discriminate.
  intros E; inversion E; subst. unfold fub_cap; simpl. eapply sm_insert_cap; eauto.
Qed.

Lemma fub_new_eq cap w :
  exists w', fub_new cap w = ({| tasks := sm_new cap; blk := length (blocks w) |}, w') /\ nalloc w' <= nalloc w + 2.
Proof. unfold fub_new. simpl. eexists. split; [reflexivity|]. simpl. destruct (Nat.eqb cap 0); lia. Qed.

Lemma fresh_push_ok cap b c w :
  1 <= cap -> exists f' w', fub_try_push {| tasks := sm_new cap; blk := b |} c w = (PushOk f', w')
                            /\ fub_cap f' = cap /\ nalloc w' = nalloc w.
Proof.
  intros Hc. unfold fub_try_push. simpl.
  destruct cap as [|cap]; [lia|]. unfold sm_insert. simpl.
  eexists. eexists. split; [reflexivity|]. split.
  - unfold fub_cap, sm_cap. simpl. rewrite map_length, seq_length. reflexivity.
  - rewrite na_enqueue. reflexivity.
Qed.

(** a push: at most 3 allocator calls (slot array, waker block, growth of the Vec of groups), and
    only when a group is created — which happens only when there is no group or the last one is
    full; the new group is [growth] times as large as the last one, the shape stays geometric *)
Theorem fu_push_growth mrg u c w :
  1 <= pMinCap P ->
  fu_ok mrg u -> geo (pGrowth P) (groups u) ->
  let '(u', w') := fu_push P mrg u c w in
  geo (pGrowth P) (groups u')
  /\ nalloc w' <= nalloc w + 3
  /\ last_cap (groups u) <= last_cap (groups u')
  /\ (nalloc w' <> nalloc w ->
      groups u = [] \/ exists l, last_opt (groups u) = Some l /\ fub_len l = fub_cap l
                                 /\ last_cap (groups u') = fub_cap l * pGrowth P).
Proof.
  intros Hmin Hok Hgeo. pose proof Hok as [O1 O2 O3]. unfold fu_push. cbn [groups rem cursor gcap].
  destruct (groups u) as [|g0 gs0] eqn:Hgs.
  - (* first group *)
    destruct (fub_new_eq (pMinCap P) w) as (w1 & -> & N1).
    unfold push_group. cbn [groups gcap length]. destruct (vec_grow 0 (gcap u)) as [c' a] eqn:Hv.
    assert (Ha : a <= 1) by (unfold vec_grow in Hv; destruct (Nat.ltb 0 (gcap u)); inversion Hv; lia).
    cbn [groups rem cursor gcap app]. cbn [last_opt rev app].
    destruct (@fresh_push_ok (pMinCap P) (length (blocks w)) c (count_alloc a w1) Hmin) as (f' & w3 & -> & Hc & N2).
    cbn [groups length pred upd]. simpl in N2. splits; auto; try lia; try exact I.
    unfold last_cap. simpl. lia.
  - remember (g0 :: gs0) as gsu eqn:Hgsu.
    assert (Hne : gsu <> []) by (subst; discriminate).
    replace (match gsu with [] => let '(g, w0) := fub_new (pMinCap P) w in
                 push_group {| groups := gsu; rem := if mrg then rem u else S (rem u); cursor := cursor u; gcap := gcap u |} g w0
               | _ :: _ => ({| groups := gsu; rem := if mrg then rem u else S (rem u); cursor := cursor u; gcap := gcap u |}, w) end)
      with ({| groups := gsu; rem := if mrg then rem u else S (rem u); cursor := cursor u; gcap := gcap u |}, w)
      by (subst; reflexivity).
    cbn [groups rem cursor gcap]. clear Hgsu g0 gs0.
    destruct (last_opt gsu) as [lastg|] eqn:Hl.
    2:{ exfalso. rewrite last_opt_nth in Hl. apply nth_error_None in Hl. destruct gsu; simpl in *; try congruence; lia. }
    assert (Hin : In lastg gsu) by (rewrite last_opt_nth in Hl; eapply nth_error_In; eauto).
    assert (Hwfl : sm_wf (tasks lastg)) by (rewrite Forall_forall in O1; auto).
    assert (Hcl : 1 <= fub_cap lastg) by (rewrite Forall_forall in O3; auto).
    destruct (fub_try_push lastg c w) as [[g'| |] w1] eqn:Hp.
    + (* fits into the last group: no allocation *)
      pose proof (na_fub_try_push lastg c w) as N. rewrite Hp in N. simpl in N.
      pose proof (fub_try_push_cap _ _ _ Hp) as Hc.
      cbn [groups]. splits; try lia.
      * apply geo_upd_same; auto. intros y Hy. rewrite last_opt_nth in Hl. congruence.
      * rewrite last_cap_upd; auto. intros y Hy. rewrite last_opt_nth in Hl. congruence.
    + (* the last group is full: a new one *)
      assert (Hfull : fub_len lastg = fub_cap lastg).
      { unfold fub_try_push in Hp. pose proof (sm_insert_spec c Hwfl) as Hs.
        destruct (sm_insert (tasks lastg) c); try discriminate. exact Hs. }
      assert (Hw1 : w1 = w).
      { unfold fub_try_push in Hp. destruct (sm_insert (tasks lastg) c); inversion Hp; auto. }
      subst w1.
      destruct (fub_new_eq (fub_cap lastg * pGrowth P) w) as (w2 & -> & N1).
      destruct (@fresh_push_ok (fub_cap lastg * pGrowth P) (length (blocks w)) c w2 ltac:(nia)) as (f' & w3 & -> & Hc2 & N2).
      unfold push_group. cbn [groups gcap]. destruct (vec_grow (length gsu) (gcap u)) as [c' a] eqn:Hv.
      assert (Ha : a <= 1) by (unfold vec_grow in Hv; destruct (Nat.ltb (length gsu) (gcap u)); inversion Hv; lia).
      cbn [groups]. simpl nalloc.
      assert (Hlc : last_cap (gsu ++ [f']) = fub_cap lastg * pGrowth P).
      { unfold last_cap. rewrite last_opt_app. exact Hc2. }
      splits; try lia.
      * apply geo_snoc; auto. intros l Hl'. rewrite Hl in Hl'. inversion Hl'; subst. rewrite Hc2. lia.
      * rewrite Hlc. unfold last_cap. rewrite Hl. nia.
      * intros _. right. exists lastg. splits; auto.
    + exfalso. unfold fub_try_push in Hp. pose proof (sm_insert_spec c Hwfl) as Hs.
      destruct (sm_insert (tasks lastg) c); try discriminate. exact Hs.
Qed.

(** the number of groups alive is logarithmic: growth^(groups - 1) * first capacity <= last capacity *)
Theorem groups_logarithmic a t :
  geo (pGrowth P) (a :: t) -> 1 <= fub_cap a ->
  pGrowth P ^ length t * fub_cap a <= last_cap (a :: t).
Proof. apply geo_pow; auto. Qed.

End WithParams.
