(** * CrossGroupPush: no starvation across groups, with pushes between the polls (C13)

    CrossGroup.v: as long as nothing is pushed, a group at distance d from the cursor is polled
    within d + 1 polls.  A push either goes into the last group (the order of the groups and the
    cursor are unchanged) or appends a new group to the Vec — which in the order the next poll
    meets the groups ([rot]) sits in front of the groups before the cursor, so the distance of a
    group grows by at most one per *created* group.  Hence for any sequence of polls, waker
    actions and pushes: the group owning block [b] is polled within
    (its distance + 1 + number of groups created meanwhile) polls. *)
From FB Require Import Base Syntax World SlotMap Fub Unbounded Ordered Adapters Step Tactics SlotMapProofs WorldProofs FubProofs
  UnboundedProofs AddrProofs FifoProofs StepProofs Reach GroupWake CrossGroup.

(** ** rotation of a list of blocks and what appending does to positions *)
Definition rotl {A} (c : nat) (B : list A) : list A :=
  let n := if Nat.leb (length B) c then 0 else c in skipn n B ++ firstn n B.

Lemma pos_append {A} (B : list A) x c d b :
  nth_error (rotl c B) d = Some b ->
  exists d', d' <= d + 1 /\ nth_error (rotl c (B ++ [x])) d' = Some b.
Proof.
  unfold rotl. rewrite app_length. simpl.
  destruct (Nat.leb_spec (length B) c) as [Hge|Hlt].
  - (* the cursor was past the end: the old order is B itself *)
    simpl. rewrite app_nil_r. intros Hd.
    assert (Hdl : d < length B) by (apply nth_error_Some; congruence).
    destruct (Nat.leb_spec (length B + 1) c) as [Hge2|Hlt2].
    + exists d. split; [lia|]. simpl. rewrite app_nil_r, nth_error_app1 by lia. exact Hd.
    + assert (c = length B) by lia. subst c. exists (S d). split; [lia|].
      rewrite skipn_app, skipn_all, Nat.sub_diag. simpl.
      rewrite firstn_app, firstn_all, Nat.sub_diag. simpl. rewrite app_nil_r. exact Hd.
  - destruct (Nat.leb_spec (length B + 1) c) as [Hge2|Hlt2]; [lia|].
    intros Hd. rewrite skipn_app, firstn_app.
    replace (c - length B) with 0 by lia. simpl. rewrite app_nil_r.
    destruct (Nat.lt_ge_cases d (length (skipn c B))) as [Hin|Hout].
    + exists d. split; [lia|]. rewrite nth_error_app1 in Hd by lia.
      rewrite <- app_assoc, nth_error_app1 by lia. exact Hd.
    + exists (S d). split; [lia|]. rewrite nth_error_app2 in Hd by lia.
      rewrite <- app_assoc, nth_error_app2 by lia.
      replace (S d - length (skipn c B)) with (S (d - length (skipn c B))) by lia. simpl. exact Hd.
Qed.

Lemma blks_rot u : blks (rot u) = rotl (cursor u) (blks (groups u)).
Proof.
  unfold rot, norm, rotl, blks. rewrite map_app, map_length, skipn_map, firstn_map. reflexivity.
Qed.

Section WithParams.
Variable P : params.
Hypothesis HP : params_ok P.

(** the group owning block [b] is at distance [d] from the cursor *)
Definition Pos (b : nat) (u : fu) (d : nat) : Prop := nth_error (blks (rot u)) d = Some b.

Lemma Pos_split b u d :
  Pos b u d -> exists pre g post, rot u = pre ++ g :: post /\ blk g = b /\ length pre = d.
Proof.
  unfold Pos, blks. intros H. rewrite nth_error_map in H.
  destruct (nth_error (rot u) d) as [g|] eqn:Hg; [|discriminate]. inversion H; subst.
  destruct (nth_error_split _ _ Hg) as (pre & post & E & L). exists pre, g, post. auto.
Qed.

Lemma Pos_of_split u pre g post : rot u = pre ++ g :: post -> Pos (blk g) u (length pre).
Proof.
  intros E. unfold Pos, blks. rewrite E, map_app. simpl. rewrite nth_error_app2; rewrite map_length; [|lia].
  rewrite Nat.sub_diag. reflexivity.
Qed.

Lemma fu_push_cursor mrg u c w : cursor (fst (fu_push P mrg u c w)) = cursor u.
Proof.
  unfold fu_push. cbn [groups rem cursor gcap].
  set (u0 := {| groups := groups u; rem := if mrg then rem u else S (rem u); cursor := cursor u; gcap := gcap u |}).
  assert (H1 : cursor (fst (match groups u with
                            | [] => let '(g, w0) := fub_new (pMinCap P) w in push_group u0 g w0
                            | _ :: _ => (u0, w) end)) = cursor u).
  { destruct (groups u); [|reflexivity]. destruct (fub_new (pMinCap P) w) as [g w0].
    unfold push_group. destruct (vec_grow _ _). reflexivity. }
  destruct (match groups u with [] => _ | _ :: _ => _ end) as [u1 w1]. cbn [fst] in H1.
  destruct (last_opt (groups u1)) as [lastg|]; [|exact H1].
  destruct (fub_try_push lastg c w1) as [[g'| |] w2]; cbn [fst cursor]; auto.
  destruct (fub_new (fub_cap lastg * pGrowth P) w2) as [gnew w3].
  destruct (fub_try_push gnew c w3) as [[g'| |] w4]; cbn [fst cursor]; auto.
  unfold push_group. destruct (vec_grow _ _). cbn [fst cursor]. exact H1.
Qed.

(** a push moves a group at most one step away from the cursor, and only by creating a group *)
Lemma push_pos mrg u c w b d :
  fu_ok mrg u -> Pos b u d ->
  let u' := fst (fu_push P mrg u c w) in
  exists d', Pos b u' d' /\ d' <= d + (length (groups u') - length (groups u)).
Proof.
  intros Hok Hp. cbv zeta. pose proof (@fu_push_blks P HP mrg u c w Hok) as Hb.
  pose proof (fu_push_cursor mrg u c w) as Hc.
  destruct (fu_push P mrg u c w) as [u' w']. cbn [fst] in *.
  unfold Pos in *. rewrite blks_rot in *. rewrite Hc.
  assert (Hlen : forall v, length (groups v) = length (blks (groups v))) by (intros; unfold blks; rewrite map_length; reflexivity).
  destruct Hb as [E|E]; rewrite E.
  - exists d. split; auto. lia.
  - destruct (pos_append _ (length (blocks w)) _ _ _ Hp) as (d' & Hle & Hd'). exists d'. split; auto.
    rewrite !Hlen, E, app_length. simpl. lia.
Qed.

(** ** sequences of polls, waker actions and pushes *)
Definition poll_env_push (o : op) : Prop :=
  match o with OBuild _ _ _ _ | ODropColl => False | _ => True end.

Definition ngroups (k : coll) : nat := match k with CFu u | CMu u => length (groups u) | _ => 0 end.

(** groups created by the pushes of [ops], run from state [s] *)
Fixpoint ncreated (s : state) (ops : list op) : nat :=
  match ops with
  | [] => 0
  | o :: rest =>
      let s' := fst (step_op P s o) in
      (match o with
       | OPush _ _ | OPushF _ _ | OTryPush _ _ | OTryPushF _ _ => ngroups (st_coll s') - ngroups (st_coll s)
       | _ => 0
       end) + ncreated s' rest
  end.

Lemma step_push_coll s c sc (mrg : bool) u :
  st_coll s = Cu mrg u ->
  st_coll (fst (step_op P s (OPush c sc))) = Cu mrg (fst (fu_push P mrg u (mk_child c sc) (begin_op no_inj (st_world s)))).
Proof.
  intros Hc. unfold step_op. rewrite Hc. destruct mrg; simpl;
    destruct (fu_push P _ u (mk_child c sc) (begin_op no_inj (st_world s))) as [u' w']; reflexivity.
Qed.

Lemma step_other_push_coll s o (mrg : bool) u :
  st_coll s = Cu mrg u ->
  match o with OPushF _ _ | OTryPush _ _ | OTryPushF _ _ => True | _ => False end ->
  st_coll (fst (step_op P s o)) = Cu mrg u.
Proof.
  intros Hc Ho. unfold step_op. rewrite Hc. destruct mrg; simpl; destruct o; try contradiction; reflexivity.
Qed.

Theorem block_polled_within_distance_with_pushes ops0 ops (mrg : bool) u b d :
  st_coll (reach P ops0) = Cu mrg u -> Pos b u d -> Forall poll_env_push ops ->
  (exists ops1 t i ops2 u1 g1,
      ops = ops1 ++ OPoll t i :: ops2 /\ st_coll (reach P (ops0 ++ ops1)) = Cu mrg u1
      /\ In g1 (groups u1) /\ blk g1 = b
      /\ polled_in P mrg g1 t (begin_op i (st_world (reach P (ops0 ++ ops1))))
                   (snd (fu_poll_next P mrg u1 t (begin_op i (st_world (reach P (ops0 ++ ops1)))))))
  \/ (exists u' d', st_coll (reach P (ops0 ++ ops)) = Cu mrg u' /\ Pos b u' d'
                    /\ d' + npolls ops <= d + ncreated (reach P ops0) ops).
Proof.
  intros Hc Hpos Hall. revert ops0 u d Hc Hpos.
  induction Hall as [|o ops Ho Hall IH]; intros ops0 u d Hc Hpos.
  - right. exists u, d. rewrite app_nil_r. simpl. splits; auto; lia.
  - assert (Hkeep : forall u1 d1 extra,
              st_coll (reach P (ops0 ++ [o])) = Cu mrg u1 -> Pos b u1 d1 ->
              d1 + (match o with OPoll _ _ => 1 | _ => 0 end) <= d + extra ->
              extra = (match o with
                       | OPush _ _ | OPushF _ _ | OTryPush _ _ | OTryPushF _ _ =>
                           ngroups (st_coll (fst (step_op P (reach P ops0) o))) - ngroups (st_coll (reach P ops0))
                       | _ => 0 end) ->
              (exists ops1 t i ops2 u2 g1,
                  o :: ops = ops1 ++ OPoll t i :: ops2 /\ st_coll (reach P (ops0 ++ ops1)) = Cu mrg u2
                  /\ In g1 (groups u2) /\ blk g1 = b
                  /\ polled_in P mrg g1 t (begin_op i (st_world (reach P (ops0 ++ ops1))))
                               (snd (fu_poll_next P mrg u2 t (begin_op i (st_world (reach P (ops0 ++ ops1)))))))
              \/ (exists u' d', st_coll (reach P (ops0 ++ o :: ops)) = Cu mrg u' /\ Pos b u' d'
                                /\ d' + npolls (o :: ops) <= d + ncreated (reach P ops0) (o :: ops))).
    { intros u1 d1 extra Hnext Hp1 Hle Hex.
      destruct (IH (ops0 ++ [o]) u1 d1 Hnext Hp1) as
          [(ops1 & t1 & i1 & ops2 & u2 & g1 & E1 & E2 & E3 & E4 & E5) | (u2 & d2 & F1 & F2 & F3)].
      - left. exists (o :: ops1), t1, i1, ops2, u2, g1. rewrite <- app_assoc in E2, E5. simpl in E2, E5.
        splits; auto. simpl. rewrite E1. reflexivity.
      - right. exists u2, d2. rewrite <- app_assoc in F1. simpl in F1. splits; auto.
        cbn [ncreated]. rewrite reach_app in F3. simpl in F3. rewrite <- Hex.
        destruct o; simpl in *; lia. }
    destruct o as [ty p inits ups|c sc|c sc|c sc|c sc|t i|a| | | | ]; try contradiction.
    + (* push *)
      assert (Hok : fu_ok mrg u).
      { destruct (@reachable_Inv P HP ops0) as [_ Hok]. rewrite Hc in Hok. destruct mrg; exact Hok. }
      pose proof (@push_pos mrg u (mk_child c sc) (begin_op no_inj (st_world (reach P ops0))) b d Hok Hpos) as Hpp.
      cbv zeta in Hpp. destruct Hpp as (d1 & Hp1 & Hle).
      assert (Hnext : st_coll (reach P (ops0 ++ [OPush c sc]))
                      = Cu mrg (fst (fu_push P mrg u (mk_child c sc) (begin_op no_inj (st_world (reach P ops0)))))).
      { rewrite reach_app. simpl. apply step_push_coll; auto. }
      eapply Hkeep; [exact Hnext|exact Hp1| |reflexivity].
      rewrite (step_push_coll _ c sc mrg u Hc), Hc. destruct mrg; simpl; lia.
    + assert (Hnext : st_coll (reach P (ops0 ++ [OPushF c sc])) = Cu mrg u).
      { rewrite reach_app. simpl. apply step_other_push_coll; auto; exact I. }
      eapply Hkeep; [exact Hnext|exact Hpos| |reflexivity]. lia.
    + assert (Hnext : st_coll (reach P (ops0 ++ [OTryPush c sc])) = Cu mrg u).
      { rewrite reach_app. simpl. apply step_other_push_coll; auto; exact I. }
      eapply Hkeep; [exact Hnext|exact Hpos| |reflexivity]. lia.
    + assert (Hnext : st_coll (reach P (ops0 ++ [OTryPushF c sc])) = Cu mrg u).
      { rewrite reach_app. simpl. apply step_other_push_coll; auto; exact I. }
      eapply Hkeep; [exact Hnext|exact Hpos| |reflexivity]. lia.
    + (* a poll *)
      destruct (Pos_split _ _ _ Hpos) as (pre & g & post & Hrot & Hb & Hl).
      pose proof (@reachable_group_not_starved P HP ops0 mrg u t i pre g post Hc Hrot) as Hv. cbv zeta in Hv.
      assert (Hnext : st_coll (reach P (ops0 ++ [OPoll t i]))
                      = Cu mrg (fst (fst (fu_poll_next P mrg u t (begin_op i (st_world (reach P ops0))))))).
      { rewrite reach_app. simpl. apply step_poll_coll; auto. }
      destruct (fu_poll_next P mrg u t (begin_op i (st_world (reach P ops0)))) as [[u' sp] w'] eqn:Ep.
      cbn [fst snd] in *.
      destruct Hv as [Hpolled | (tk & c & pre' & post' & Hsp & Hrot' & Hlt & Hfr)].
      * left. exists [], t, i, ops, u, g. rewrite app_nil_r, Ep. splits; auto.
        apply rot_in. rewrite Hrot. apply in_or_app; right; left; auto.
      * pose proof (Pos_of_split _ _ _ _ Hrot') as Hp1. rewrite Hb in Hp1.
        eapply Hkeep; [exact Hnext|exact Hp1| |reflexivity]. lia.
    + assert (Hnext : st_coll (reach P (ops0 ++ [OEnv a])) = Cu mrg u).
      { rewrite reach_app. simpl. apply step_keeps_coll; auto; exact I. }
      eapply Hkeep; [exact Hnext|exact Hpos| |reflexivity]. lia.
    + assert (Hnext : st_coll (reach P (ops0 ++ [OObs])) = Cu mrg u).
      { rewrite reach_app. simpl. apply step_keeps_coll; auto; exact I. }
      eapply Hkeep; [exact Hnext|exact Hpos| |reflexivity]. lia.
    + assert (Hnext : st_coll (reach P (ops0 ++ [OMove])) = Cu mrg u).
      { rewrite reach_app. simpl. apply step_keeps_coll; auto; exact I. }
      eapply Hkeep; [exact Hnext|exact Hpos| |reflexivity]. lia.
    + assert (Hnext : st_coll (reach P (ops0 ++ [OCleanup])) = Cu mrg u).
      { rewrite reach_app. simpl. apply step_keeps_coll; auto; exact I. }
      eapply Hkeep; [exact Hnext|exact Hpos| |reflexivity]. lia.
Qed.

(** so: more polls than (distance + groups created meanwhile) means the group has been polled *)
Corollary block_polled_within_distance_plus_created ops0 ops (mrg : bool) u b d :
  st_coll (reach P ops0) = Cu mrg u -> Pos b u d -> Forall poll_env_push ops ->
  d + ncreated (reach P ops0) ops < npolls ops ->
  exists ops1 t i ops2 u1 g1,
      ops = ops1 ++ OPoll t i :: ops2 /\ st_coll (reach P (ops0 ++ ops1)) = Cu mrg u1
      /\ In g1 (groups u1) /\ blk g1 = b
      /\ polled_in P mrg g1 t (begin_op i (st_world (reach P (ops0 ++ ops1))))
                   (snd (fu_poll_next P mrg u1 t (begin_op i (st_world (reach P (ops0 ++ ops1)))))).
Proof.
  intros Hc Hp Hall Hlt.
  destruct (@block_polled_within_distance_with_pushes ops0 ops mrg u b d Hc Hp Hall) as [H|(u' & d' & _ & _ & F)]; auto.
  lia.
Qed.

End WithParams.
