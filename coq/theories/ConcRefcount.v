(** * ConcRefcount: the reference-count protocol under any interleaving (C03 b)

    Any number of threads own references to one block: the collection's handle and the cloned
    wakers, possibly on different threads.  Each owner may clone (an atomic [fetch_add] — the
    new owner may belong to any thread), use the block (wake, wake_by_ref, poll: an access), and
    finally drop its reference (an atomic [fetch_sub]; the owner that reads 1 releases the block).
    Steps of different owners interleave arbitrarily (sequential consistency: each step is
    atomic).  Theorem: in every reachable state the counter equals the number of live owners;
    the block is released by exactly one step, the drop of the last live owner; no access and no
    counter update ever touches a released block; when no owner is left the block is released. *)
From FB Require Import Base.

Inductive ostate := Live | Gone.

Record rc := {
  owners : list ostate;      (* every owner ever created, in creation order *)
  count : nat;               (* the atomic counter *)
  released : bool;
  frees : nat;               (* how many times the block was released *)
  bad : nat;                 (* accesses / counter updates on a released block *)
}.

Definition rc_init : rc := {| owners := [Live]; count := 1; released := false; frees := 0; bad := 0 |}.

(** one atomic step of owner [i] *)
Inductive action := Clone | Use | Drop.

Definition live_at (s : rc) (i : nat) : bool :=
  match nth_error (owners s) i with Some Live => true | _ => false end.

Definition step (s : rc) (i : nat) (a : action) : rc :=
  if negb (live_at s i) then s        (* an owner that is gone takes no more steps *)
  else
    match a with
    | Use => {| owners := owners s; count := count s; released := released s; frees := frees s;
                bad := if released s then S (bad s) else bad s |}
    | Clone => {| owners := owners s ++ [Live]; count := S (count s); released := released s; frees := frees s;
                  bad := if released s then S (bad s) else bad s |}
    | Drop =>
        let last := Nat.eqb (count s) 1 in
        {| owners := upd (owners s) i Gone; count := pred (count s);
           released := released s || last; frees := if last then S (frees s) else frees s;
           bad := if released s then S (bad s) else bad s |}
    end.

Fixpoint live_count (l : list ostate) : nat :=
  match l with [] => 0 | Live :: t => S (live_count t) | Gone :: t => live_count t end.

Definition rc_inv (s : rc) : Prop :=
  count s = live_count (owners s)
  /\ (released s = true <-> live_count (owners s) = 0)
  /\ frees s = (if released s then 1 else 0)
  /\ bad s = 0.

Lemma live_count_app a b : live_count (a ++ b) = live_count a + live_count b.
Proof. induction a as [|[|] a IH]; simpl; auto. Qed.

Lemma live_count_upd_gone l i :
  nth_error l i = Some Live -> S (live_count (upd l i Gone)) = live_count l.
Proof.
  revert i. induction l as [|x l IH]; intros [|i] H; simpl in *; try discriminate.
  - inversion H; subst. reflexivity.
  - destruct x; simpl; rewrite <- (IH i H); reflexivity.
Qed.

Lemma live_pos l i : nth_error l i = Some Live -> 0 < live_count l.
Proof. intros H. rewrite <- (live_count_upd_gone l i H). lia. Qed.

Theorem step_inv s i a : rc_inv s -> rc_inv (step s i a).
Proof.
  intros (H1 & H2 & H3 & H4). unfold step, live_at.
  destruct (nth_error (owners s) i) as [[|]|] eqn:Hn; simpl; try (unfold rc_inv; tauto).
  pose proof (live_pos _ _ Hn) as Hpos.
  assert (Hnr : released s = false).
  { destruct (released s) eqn:E; auto. exfalso. assert (live_count (owners s) = 0) by (apply H2; reflexivity). lia. }
  destruct a; unfold rc_inv; simpl; rewrite Hnr in *; simpl.
  - (* clone *)
    rewrite live_count_app. simpl. repeat split; try lia; try discriminate.
  - repeat split; auto; try discriminate; intros; lia.
  - (* drop *)
    pose proof (live_count_upd_gone _ _ Hn) as Hl.
    destruct (Nat.eqb_spec (count s) 1) as [He|Hne]; simpl.
    + repeat split; auto; try lia.
    + repeat split; auto; try lia; try discriminate; intros; lia.
Qed.

Fixpoint run (s : rc) (sched : list (nat * action)) : rc :=
  match sched with [] => s | (i, a) :: t => run (step s i a) t end.

Lemma rc_inv_init : rc_inv rc_init.
Proof. unfold rc_inv, rc_init; simpl. repeat split; auto; try discriminate; lia. Qed.

(** for every schedule: counter = live owners; released iff none is left; released at most
    once; no step ever touched a released block *)
Theorem every_interleaving sched : rc_inv (run rc_init sched).
Proof.
  assert (H : forall s, rc_inv s -> rc_inv (run s sched)).
  { induction sched as [|[i a] t IH]; simpl; intros s Hs; auto. apply IH. apply step_inv; auto. }
  apply H. apply rc_inv_init.
Qed.

(** the release is performed by the drop of the last live owner — by nobody else, and exactly then *)
Theorem released_by_the_last_drop s i a :
  rc_inv s -> released s = false -> released (step s i a) = true ->
  a = Drop /\ live_at s i = true /\ live_count (owners s) = 1.
Proof.
  intros (H1 & H2 & H3 & H4) Hr. unfold step. destruct (live_at s i) eqn:Hl; simpl; [|congruence].
  destruct a; simpl; try congruence. rewrite Hr. simpl.
  destruct (Nat.eqb_spec (count s) 1); [|discriminate]. intros _. repeat split; auto. lia.
Qed.
