(** * Step: the top-level state machine — one history operation at a time *)
From FB Require Import Base Syntax World SlotMap Fub Unbounded Ordered Adapters.

Inductive coll :=
| CNone                    (* not built yet *)
| CDead                    (* a constructor or poll panicked: nothing more is observed *)
| CDropped
| CFub (f : fub)
| CMb (f : fub)
| CFu (u : fu)
| CMu (u : fu)
| CFob (q : fob)
| CFo (q : fo)
| CAd (a : adapter)
| CFec (a : fec)
| CJoin (j : join).

Record state := { st_coll : coll; st_world : world }.

Definition init_state : state := {| st_coll := CNone; st_world := empty_world |}.

Section WithParams.
Variable P : params.

Definition mk_children (l : list (N * script)) : list child :=
  map (fun p => mk_child (fst p) (snd p)) l.

(** the lower bound of the iterator's size_hint that [from_iter] sees *)
Definition lazy_hint (p : cparams) (cs : list child) : nat := match p_lazy p with Some k => k | None => length cs end.

Definition seed_of (p : cparams) : Z := match p_seed p with Some z => z | None => 0%Z end.

Definition build (t : ctype) (p : cparams) (inits : list (N * script)) (ups : list upstep)
  (w : world) : coll * world :=
  let cs := mk_children inits in
  let up := mk_upstream ups (p_hlo p) (p_hhi p) in
  match t with
  | TFUB => if p_iter p then let '(f, w) := fub_from_list cs w in (CFub f, w)
            else let '(f, w) := fub_new (p_cap p) w in (CFub f, w)
  | TMB => let '(f, w) := fub_from_list cs w in (CMb f, w)
  | TFU => if p_iter p then let '(u, w) := fu_from_list P false (lazy_hint p cs) cs w in (CFu u, w)
           else if p_new p then (CFu fu_empty, w)
           else let '(u, w) := fu_with_capacity (p_cap p) w in (CFu u, w)
  | TMU => if p_iter p then let '(u, w) := fu_from_list P true (lazy_hint p cs) cs w in (CMu u, w)
           else if p_new p then (CMu fu_empty, w)
           else let '(u, w) := fu_with_capacity (p_cap p) w in (CMu u, w)
  | TFOB => if p_iter p then
              let '(q, w) := fob_from_list P cs w in
              (CFob (match cs, p_seed p with
                     | [], Some z => {| fo_inner := fo_inner q; fo_ord := ord_new P 0 z |}
                     | _, _ => q end), w)
            else match fob_new P (p_cap p) (seed_of p) w with
                 | (NewOk q, w) => (CFob q, w)
                 | (NewPanic, w) => (CDead, emit (ERet RetPanic) w)
                 end
  | TFO => if p_iter p then
             let '(q, w) := fo_from_list P (lazy_hint p cs) cs w in
             (CFo (match cs, p_seed p with
                   | [], Some z => {| fu_inner := fu_inner q; fu_ord := ord_new P 0 z |}
                   | _, _ => q end), w)
           else if p_new p then (CFo {| fu_inner := fu_empty; fu_ord := ord_new P 0 (seed_of p) |}, w)
           else match fo_with_capacity P (p_cap p) (seed_of p) w with
                | (NewOk q, w) => (CFo q, w)
                | (NewPanic, w) => (CDead, emit (ERet RetPanic) w)
                end
  | TBU | TTBU =>
      let '(f, w) := fub_new (p_cap p) w in
      (CAd {| ad_try := match t with TTBU => true | _ => false end; ad_up := Some up; ad_q := QU f |}, w)
  | TBO | TTBO =>
      match fob_new P (p_cap p) 0%Z w with
      | (NewOk q, w) =>
          (CAd {| ad_try := match t with TTBO => true | _ => false end; ad_up := Some up; ad_q := QO q |}, w)
      | (NewPanic, w) => (CDead, emit (ERet RetPanic) (emit EUpDrop w))
      end
  | TFEC => let '(f, w) := fub_new (p_cap p) w in (CFec {| fe_up := Some up; fe_q := f |}, w)
  | TJA => let '(j, w) := join_new false cs w in (CJoin j, w)
  | TTJA => let '(j, w) := join_new true cs w in (CJoin j, w)
  end.

(** a [ret item] is followed by the caller dropping what it received *)
Definition ret_toks (r : retv) : list tok :=
  match r with
  | RetItem t | RetErr t => [t]
  | RetReady l | RetOkv l => l
  | _ => []
  end.

Definition emit_ret (r : retv) (w : world) : world :=
  fold_left (fun w t => emit (EODrop t false) w) (ret_toks r) (emit (ERet r) w).

Definition spoll_ret (sp : spoll) : retv :=
  match sp with SPending => RetPending | SNone => RetNone | SItem t _ => RetItem t end.

(** bounded [push]: panics when full, the rejected child is dropped first *)
Definition bounded_push_result (c : N) (ok : bool) (w : world) : world :=
  if ok then emit (ERet RetOk) w
  else emit (ERet RetPanic) (emit (ECDrop c None) w).

Definition refused_result (c : N) (w : world) : world :=
  emit (ERet RetRefused) (emit (ECDrop c None) (emit (ERefused c) w)).

Definition do_push (try front : bool) (c : N) (s : script) (k : coll) (w : world) : coll * world :=
  let ch := mk_child c s in
  match k with
  | CFub f =>
      if front then (k, w) else
      match fub_try_push f ch w with
      | (PushOk f', w) => (CFub f', emit (ERet RetOk) w)
      | (_, w) => (k, if try then refused_result c w else bounded_push_result c false w)
      end
  | CMb f =>
      if front then (k, w) else
      match fub_try_push f ch w with
      | (PushOk f', w) => (CMb f', emit (ERet RetOk) w)
      | (_, w) => (k, if try then refused_result c w else bounded_push_result c false w)
      end
  | CFu u => if try || front then (k, w) else
             let '(u, w) := fu_push P false u ch w in (CFu u, emit (ERet RetOk) w)
  | CMu u => if try || front then (k, w) else
             let '(u, w) := fu_push P true u ch w in (CMu u, emit (ERet RetOk) w)
  | CFob q =>
      match fob_try_push P front q ch w with
      | (Some q', w) => (CFob q', emit (ERet RetOk) w)
      | (None, w) => (k, if try then refused_result c w else bounded_push_result c false w)
      end
  | CFo q => if try then (k, w) else
             let '(q, w) := fo_push P front q ch w in (CFo q, emit (ERet RetOk) w)
  | _ => (k, w)
  end.

Definition do_poll (t : nat) (k : coll) (w : world) : coll * world :=
  match k with
  | CFub f => let '(f, sp, w) := fub_poll_next P KFut f t w in (CFub f, emit_ret (spoll_ret sp) w)
  | CMb f => let '(f, sp, w) := mb_poll_next P f t w in (CMb f, emit_ret (spoll_ret sp) w)
  | CFu u => let '(u, sp, w) := fu_poll_next P false u t w in (CFu u, emit_ret (spoll_ret sp) w)
  | CMu u => let '(u, sp, w) := fu_poll_next P true u t w in (CMu u, emit_ret (spoll_ret sp) w)
  | CFob q => let '(q, sp, w) := fob_poll_next P KFut q t w in (CFob q, emit_ret (spoll_ret sp) w)
  | CFo q => let '(q, sp, w) := fo_poll_next P q t w in (CFo q, emit_ret (spoll_ret sp) w)
  | CAd a => let '(a, r, w) := adapter_poll P a t w in (CAd a, emit_ret r w)
  | CFec a => let '(a, r, w) := fec_poll P a t w in (CFec a, emit_ret r w)
  | CJoin j => let '(j, r, w) := join_poll P j t w in (CJoin j, emit_ret r w)
  | _ => (k, w)
  end.

Definition obs_none : obsrec :=
  {| ob_len := None; ob_empty := None; ob_cap := None; ob_hint := None; ob_term := None |}.

Definition observe (k : coll) : option obsrec :=
  match k with
  | CFub f => let n := fub_len f in
      Some {| ob_len := Some n; ob_empty := Some (Nat.eqb n 0); ob_cap := Some (fub_cap f);
              ob_hint := Some (N.of_nat n, Some (N.of_nat n)); ob_term := Some (Nat.eqb n 0) |}
  | CMb f => Some {| ob_len := None; ob_empty := None; ob_cap := None; ob_hint := Some (0%N, None); ob_term := None |}
  | CFu u => let n := rem u in
      Some {| ob_len := Some n; ob_empty := Some (Nat.eqb n 0); ob_cap := Some (fu_capacity u);
              ob_hint := Some (N.of_nat n, Some (N.of_nat n)); ob_term := Some (Nat.eqb n 0) |}
  | CMu u => let n := fu_len_sum u in
      Some {| ob_len := Some n; ob_empty := Some (forallb (fun g => Nat.eqb (fub_len g) 0) (groups u));
              ob_cap := None; ob_hint := Some (0%N, None); ob_term := None |}
  | CFob q => let n := fob_len q in
      let e := Nat.eqb (fub_len (fo_inner q)) 0 && Nat.eqb (length (oheap (fo_ord q))) 0 in
      Some {| ob_len := Some n; ob_empty := Some e; ob_cap := None; ob_hint := Some (N.of_nat n, Some (N.of_nat n)); ob_term := Some e |}
  | CFo q => let n := fo_len q in
      let e := Nat.eqb (rem (fu_inner q)) 0 && Nat.eqb (length (oheap (fu_ord q))) 0 in
      Some {| ob_len := Some n; ob_empty := Some e; ob_cap := None; ob_hint := Some (N.of_nat n, Some (N.of_nat n)); ob_term := Some e |}
  | CAd a => Some {| ob_len := None; ob_empty := None; ob_cap := None; ob_hint := Some (adapter_hint P a); ob_term := None |}
  | CFec a => Some {| ob_len := None; ob_empty := None; ob_cap := None; ob_hint := None;
                      ob_term := Some (match fe_up a with None => Nat.eqb (fub_len (fe_q a)) 0 | Some _ => false end) |}
  | CJoin _ => Some obs_none
  | _ => None
  end.

Definition do_drop (k : coll) (w : world) : coll * world :=
  match k with
  | CFub f | CMb f => (CDropped, fub_drop f w)
  | CFu u | CMu u => (CDropped, fu_drop u w)
  | CFob q => (CDropped, fob_drop q w)
  | CFo q => (CDropped, fo_drop q w)
  | CAd a => (CDropped, adapter_drop a w)
  | CFec a => (CDropped, fec_drop a w)
  | CJoin j => (CDropped, join_drop j w)
  | _ => (k, w)
  end.

Definition finish_op (w : world) : list event :=
  rev (match nalloc w with O => log w | n => EAlloc n :: log w end).

Definition step_core (k : coll) (o : op) (w : world) : coll * world :=
  match o with
  | OBuild t p inits ups => match k with CNone => build t p inits ups w | _ => (k, w) end
  | OPush c sc => do_push false false c sc k w
  | OPushF c sc => do_push false true c sc k w
  | OTryPush c sc => do_push true false c sc k w
  | OTryPushF c sc => do_push true true c sc k w
  | OPoll t _ => do_poll t k w
  | OEnv a => (k, do_act None a w)
  | OObs => (k, match observe k with Some o => emit (EObs o) w | None => w end)
  | OMove => (k, w)
  | ODropColl => do_drop k w
  | OCleanup => (k, cleanup w)
  end.

Definition op_inj (o : op) : injection := match o with OPoll _ i => i | _ => no_inj end.

Definition is_dead (k : coll) : bool := match k with CDead => true | _ => false end.

Definition step_op (s : state) (o : op) : state * list event :=
  if is_dead (st_coll s) then (s, [])
  else
    let w := begin_op (op_inj o) (st_world s) in
    let '(k', w') := step_core (st_coll s) o w in
    ({| st_coll := k'; st_world := w' |}, finish_op w').

Fixpoint run (s : state) (ops : list op) : list (list event) :=
  match ops with
  | [] => []
  | o :: rest => let '(s', evs) := step_op s o in evs :: run s' rest
  end.

End WithParams.
