(** * SlotMap: [PinSlotMap] — a fixed array of slots with an intrusive free list *)
From FB Require Import Base Syntax.

(** a child as stored in a slot: its identity, the rest of its script, the number of
    items it has yielded (sources), whether it finished, and (ordered collections) its
    position index *)
Record child := {
  cid : N;
  cscript : script;
  cseq : nat;
  cdone : bool;
  cidx : Z;
}.

Definition mk_child (c : N) (s : script) : child :=
  {| cid := c; cscript := s; cseq := 0; cdone := false; cidx := 0%Z |}.

Definition child_set_idx (c : child) (i : Z) : child :=
  {| cid := cid c; cscript := cscript c; cseq := cseq c; cdone := cdone c; cidx := i |}.

Inductive slot := Occ (c : child) | Free (next : nat).

Record slotmap := {
  slots : list slot;
  free_head : nat;
  filled : nat;
}.

Definition sm_new (cap : nat) : slotmap :=
  {| slots := map Free (seq 1 cap); free_head := 0; filled := 0 |}.

Definition sm_from_list (l : list child) : slotmap :=
  {| slots := map Occ l; free_head := length l; filled := length l |}.

Definition sm_cap (m : slotmap) : nat := length (slots m).

Inductive ins_res :=
| InsOk (key : nat) (m : slotmap)
| InsFull
| InsStuck.   (* the [unreachable_unchecked] arm *)

(** [insert_with]: the value is built only after a free slot was found, so the caller
    passes a function from the key to the child (used by the ordered queues to read
    their counters only on success) *)
Definition sm_insert (m : slotmap) (c : child) : ins_res :=
  let key := free_head m in
  match nth_error (slots m) key with
  | None => InsFull
  | Some (Free next) =>
      InsOk key {| slots := upd (slots m) key (Occ c); free_head := next; filled := S (filled m) |}
  | Some (Occ _) => InsStuck
  end.

(** [remove]: no-op on a vacant or out-of-range key *)
Definition sm_remove (m : slotmap) (key : nat) : slotmap :=
  match nth_error (slots m) key with
  | Some (Occ _) =>
      {| slots := upd (slots m) key (Free (free_head m)); free_head := key; filled := pred (filled m) |}
  | _ => m
  end.

Definition sm_get (m : slotmap) (key : nat) : option child :=
  match nth_error (slots m) key with
  | Some (Occ c) => Some c
  | _ => None
  end.

(** in-place update of an occupied slot (a poll advances the child's script) *)
Definition sm_set (m : slotmap) (key : nat) (c : child) : slotmap :=
  {| slots := upd (slots m) key (Occ c); free_head := free_head m; filled := filled m |}.

Definition sm_children (m : slotmap) : list (nat * child) :=
  flat_map (fun p => match snd p with Occ c => [(fst p, c)] | Free _ => [] end)
           (combine (seq 0 (length (slots m))) (slots m)).

Definition sm_map_children (f : child -> child) (m : slotmap) : slotmap :=
  {| slots := map (fun s => match s with Occ c => Occ (f c) | Free n => Free n end) (slots m);
     free_head := free_head m; filled := filled m |}.
