(** * Syntax: scripts, operations, events (the vocabulary shared with the harness) *)
From FB Require Import Base.

(** actions a child / upstream / the environment can perform on wakers *)
Inductive act :=
| ASelf                (* wake_by_ref the waker of the current Context *)
| ACloneSelf           (* clone it into a new handle *)
| AWakeRef (h : nat)   (* wake_by_ref handle h *)
| AWake (h : nat)      (* wake (consume) handle h *)
| ADrop (h : nat)      (* drop handle h *)
| AClone (h : nat).    (* clone handle h into a new handle *)

Inductive res := RP | RR | RX | RI | RE.

Definition step := (list act * res)%type.
Definition script := list step.

(** tokens: what flows out of the crate *)
Inductive tok :=
| TOut (c : N)            (* output of future c *)
| TErr (c : N)            (* error of try-future c *)
| TItem (c : N) (k : nat) (* k-th item of source c *)
| TUp (k : nat)           (* error item of a try-upstream, k = step index *)
| TGarbage.               (* a value no input produced (model of an uninitialised read) *)

Inductive upstep :=
| UItem (s : script)
| UPend (a : list act)
| UErr
| UEnd.

Inductive ctype := TFUB | TFU | TMB | TMU | TFOB | TFO | TBU | TBO | TTBU | TTBO | TFEC | TJA | TTJA.

Record cparams := {
  p_cap : nat;          (* cap= / n= *)
  p_new : bool;         (* new=1 *)
  p_iter : bool;        (* iter=1 *)
  p_lazy : option nat;   (* the lower bound of size_hint the iterator handed to from_iter / join_all claims, if it is
                            not the honest one: lazy=1 -> Some 0 (a filter iterator), ihint=K -> Some K (a lying one) *)
  p_seed : option Z;    (* seed= *)
  p_hlo : nat;          (* hint slack *)
  p_hhi : option N;     (* slack of the upstream's upper bound; N: values near 2^64 are of interest *)
}.

Inductive ipoint := IReg | IMid | IExit.

Record injection := {
  inj_pts : list (ipoint * nat * list act);
  inj_inc : list nat;
}.

Definition no_inj : injection := {| inj_pts := []; inj_inc := [] |}.

(** injection lookup: all entries of a hook point, concatenated in order *)
Definition ipoint_eqb (a b : ipoint) : bool :=
  match a, b with IReg, IReg | IMid, IMid | IExit, IExit => true | _, _ => false end.

Fixpoint find_inj (p : ipoint) (k : nat) (l : list (ipoint * nat * list act)) : list act :=
  match l with
  | [] => []
  | (p', k', a) :: t => if ipoint_eqb p p' && Nat.eqb k k' then a ++ find_inj p k t else find_inj p k t
  end.

Inductive op :=
| OBuild (t : ctype) (p : cparams) (inits : list (N * script)) (ups : list upstep)
| OPush (c : N) (s : script)
| OPushF (c : N) (s : script)
| OTryPush (c : N) (s : script)
| OTryPushF (c : N) (s : script)
| OPoll (w : nat) (i : injection)
| OEnv (a : act)
| OObs
| OMove
| ODropColl
| OCleanup.

Inductive cause := CChild | CCrate.

Inductive upans := UAItem (c : N) | UAPend | UAEnd | UAErr (t : tok) | UAAfterEnd.

Inductive retv :=
| RetPending | RetNone | RetItem (t : tok) | RetReady (l : list tok) | RetOkv (l : list tok)
| RetErr (t : tok) | RetDone | RetOk | RetRefused | RetPanic | RetRunaway.

(** address of a child: (block uid, slot) in the model; an opaque id in implementation traces *)
Definition addr := (nat * nat)%type.

Record obsrec := {
  ob_len : option nat; ob_empty : option bool; ob_cap : option nat;
  ob_hint : option (N * option N); ob_term : option bool;
}.

Inductive event :=
| EBlkAlloc (b cap : nat)
| EBlkFree (b : nat)
| EVtBad
| ECPoll (c : N) (b s : nat) (a : addr)
| ECAns (c : N) (r : res)
| ECDrop (c : N) (a : option addr)
| EODrop (t : tok) (inside : bool)
| ETWake (w : nat) (cz : cause)
| EUpPoll (a : upans)
| EUpDrop
| ERefused (c : N)
| ERet (r : retv)
| EObs (o : obsrec)
| EAlloc (n : nat)
| EInj (p : ipoint) (k : nat) (sl : option (nat * nat))  (* the injected actions of hook point (p, k) start here; sl = the slot the pop dequeued *)
| ELeak                 (* any leak / balance diagnostic of the harness *)
| EStuck                (* model only: an `unreachable` arm of the code was reached *)
| EOutOfFuel.           (* model only: a fuelled loop ran out of fuel *)

(** numeric parameters of the code, calibrated from the implementation on every run *)
Record params := {
  pB : nat;        (* per-poll budget of FuturesUnorderedBounded (61) *)
  pMinCap : nat;   (* first group of the unbounded collections (32) *)
  pGrowth : nat;   (* growth factor of the groups (2) *)
  pW : nat;        (* word size in bits (64) *)
}.
