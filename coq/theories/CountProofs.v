(** * CountProofs: the credit accounting of child polls (C12) and the per-call budget (C13 a)

    Ghost counters of the world: [gpolls] child polls, [genq] enqueues of a slot into a ready
    queue, [gpush] accepted pushes, [gwake] child-waker invocations, [gitems] re-arms after a
    merge item.  Invariant [cntinv pc w]:
      gpolls + (entries in all ready queues) + pc <= genq <= gpush + gwake + gitems
    where [pc] is 1 exactly between a successful dequeue and the poll it pays for.  Hence over
    any history: child polls <= accepted pushes + waker invocations + merge items, and
    repeated wakes of a child between two of its polls enqueue (and cost) at most one poll. *)
From FB Require Import Base Syntax World SlotMap Fub Unbounded Ordered Adapters Step Tactics.
Set Implicit Arguments.

Fixpoint qsum (bs : list block) : nat :=
  match bs with [] => 0 | k :: t => length (bqueue k) + qsum t end.

Definition credit (w : world) : nat := gpush (wghost w) + gwake (wghost w) + gitems (wghost w).

Definition cntinv (pc : nat) (w : world) : Prop :=
  gpolls (wghost w) + qsum (blocks w) + pc <= genq (wghost w) /\ genq (wghost w) <= credit w.

Lemma qsum_upd bs b k k' :
  nth_error bs b = Some k -> qsum (upd bs b k') + length (bqueue k) = qsum bs + length (bqueue k').
Proof.
  revert b; induction bs as [|a t IH]; intros [|b] H; simpl in *; try discriminate.
  - inversion H; subst. lia.
  - specialize (IH _ H). lia.
Qed.

Lemma qsum_app a b : qsum (a ++ b) = qsum a + qsum b.
Proof. induction a; simpl; auto. rewrite IHa; lia. Qed.

(** frame: same blocks' queues, same ghost *)
Lemma cntinv_frame pc w w' :
  qsum (blocks w') = qsum (blocks w) -> wghost w' = wghost w -> cntinv pc w -> cntinv pc w'.
Proof. unfold cntinv, credit. intros -> ->. auto. Qed.

Lemma cntinv_weaken pc pc' w : pc' <= pc -> cntinv pc w -> cntinv pc' w.
Proof. unfold cntinv. intros; lia. Qed.

Lemma cntinv_emit pc e w : cntinv pc w -> cntinv pc (emit e w).
Proof. apply cntinv_frame; reflexivity. Qed.

Lemma cntinv_put_same pc b k k' w :
  get_blk w b = Some k -> bqueue k' = bqueue k -> cntinv pc w -> cntinv pc (put_blk b k' w).
Proof.
  intros Hk Hq. apply cntinv_frame; auto. simpl.
  pose proof (@qsum_upd _ _ _ k' Hk) as H. rewrite Hq in H. lia.
Qed.

Lemma cntinv_notify pc b w : cntinv pc w -> cntinv pc (notify b w).
Proof.
  intros H. unfold notify. destruct (get_blk w b) as [k|] eqn:Hk; auto.
  destruct (breg k); auto. apply cntinv_emit. eapply cntinv_put_same; eauto.
Qed.

(** an enqueue paid for by a credit bump *)
Definition bump (f : world -> world) : Prop :=
  forall w, blocks (f w) = blocks w /\ gpolls (wghost (f w)) = gpolls (wghost w)
            /\ genq (wghost (f w)) = genq (wghost w) /\ credit (f w) = S (credit w)
            /\ handles (f w) = handles w.

Lemma bump_push : bump g_push. Proof. intros w. unfold credit, g_push; simpl. splits; auto; lia. Qed.
Lemma bump_wake : bump g_wake. Proof. intros w. unfold credit, g_wake; simpl. splits; auto; lia. Qed.
Lemma bump_item : bump g_item. Proof. intros w. unfold credit, g_item; simpl. splits; auto; lia. Qed.

Lemma cntinv_enqueue pc f b s w :
  bump f -> cntinv pc w -> cntinv pc (snd (enqueue_slot b s (f w))).
Proof.
  intros Hf [H1 H2]. destruct (Hf w) as (B1 & B2 & B3 & B4 & B5).
  unfold enqueue_slot. unfold get_blk. rewrite B1.
  destruct (nth_error (blocks w) b) as [k|] eqn:Hk; simpl.
  - destruct (nth_error (bflags k) s) as [[|]|]; simpl.
    + unfold cntinv. rewrite B1, B2, B3, B4. lia.
    + unfold cntinv, credit in *. simpl. rewrite B1.
      pose proof (@qsum_upd _ _ _ (blk_set_queue (blk_set_flags k (upd (bflags k) s true)) (bqueue k ++ [s])) Hk) as Hq.
      simpl in Hq. rewrite app_length in Hq. simpl in Hq.
      lia.
    + unfold cntinv. rewrite B1, B2, B3, B4. lia.
  - unfold cntinv. rewrite B1, B2, B3, B4. lia.
Qed.

Lemma cntinv_wake_slot pc b s w : cntinv pc w -> cntinv pc (wake_slot b s w).
Proof.
  intros H. unfold wake_slot. change (get_blk (g_wake w) b) with (get_blk w b).
  destruct (get_blk w b) as [k|] eqn:Hk.
  - destruct (bfreed k).
    + apply cntinv_emit. unfold cntinv, credit in *. simpl. lia.
    + pose proof (cntinv_enqueue b s bump_wake H) as He.
      destruct (enqueue_slot b s (g_wake w)) as [q w1]. simpl in He.
      destruct q; auto. apply cntinv_notify; auto.
  - apply cntinv_emit. unfold cntinv, credit in *. simpl. lia.
Qed.

Lemma cntinv_dec_strong pc b w : cntinv pc w -> cntinv pc (dec_strong b w).
Proof.
  intros H. unfold dec_strong. destruct (get_blk w b) as [k|] eqn:Hk; [|apply cntinv_emit; auto].
  destruct (bfreed k); [apply cntinv_emit; auto|].
  destruct (bstrong k) as [|[|n]].
  - eapply cntinv_put_same; eauto.
  - apply cntinv_emit. eapply cntinv_put_same; eauto.
  - eapply cntinv_put_same; eauto.
Qed.

Lemma cntinv_inc_strong pc b w : cntinv pc w -> cntinv pc (inc_strong b w).
Proof.
  intros H. unfold inc_strong. destruct (get_blk w b) as [k|] eqn:Hk; [|apply cntinv_emit; auto].
  destruct (bfreed k); [apply cntinv_emit; auto|]. eapply cntinv_put_same; eauto.
Qed.

Lemma cntinv_set_handles pc hs w : cntinv pc w -> cntinv pc (set_handles hs w).
Proof. apply cntinv_frame; reflexivity. Qed.

Lemma cntinv_do_act pc cw a w : cntinv pc w -> cntinv pc (do_act cw a w).
Proof.
  intros H. destruct a; cbn [do_act].
  - destruct cw as [[t|b s]|]; cbn [wake_ref_handle]; auto; first [apply cntinv_emit; assumption | apply cntinv_wake_slot; assumption].
  - destruct cw as [[t|b s]|]; cbn [clone_handle_val]; auto; unfold add_handle; apply cntinv_set_handles; auto.
    apply cntinv_inc_strong; auto.
  - destruct (get_handle w h) as [[t|b s]|]; cbn [wake_ref_handle]; auto; first [apply cntinv_emit; assumption | apply cntinv_wake_slot; assumption].
  - destruct (get_handle w h) as [[t|b s]|]; cbn [wake_ref_handle drop_handle_val]; auto;
      first [ apply cntinv_emit; unfold kill_handle; apply cntinv_set_handles; assumption
            | apply cntinv_dec_strong; apply cntinv_wake_slot; unfold kill_handle; apply cntinv_set_handles; assumption ].
  - destruct (get_handle w h) as [[t|b s]|]; cbn [drop_handle_val]; auto;
      first [ apply cntinv_dec_strong; unfold kill_handle; apply cntinv_set_handles; assumption
            | unfold kill_handle; apply cntinv_set_handles; assumption ].
  - destruct (get_handle w h) as [[t|b s]|]; cbn [clone_handle_val]; auto; unfold add_handle; apply cntinv_set_handles; auto.
    apply cntinv_inc_strong; auto.
Qed.

Lemma cntinv_do_acts pc cw l w : cntinv pc w -> cntinv pc (do_acts cw l w).
Proof.
  unfold do_acts. revert w; induction l as [|a l IH]; simpl; intros w H; auto.
  apply IH. apply cntinv_do_act; auto.
Qed.

Lemma cntinv_run_inj pc p k sl w : cntinv pc w -> cntinv pc (run_inj p k sl w).
Proof.
  intros H. unfold run_inj. destruct (find_inj p k (inj_pts (winj w))) eqn:E; auto.
  rewrite <- E. apply cntinv_do_acts. apply cntinv_emit; auto.
Qed.

Lemma cntinv_clear_flag pc b i w : cntinv pc w -> cntinv pc (clear_flag b i w).
Proof.
  intros H. unfold clear_flag. destruct (get_blk w b) as [k|] eqn:Hk; auto.
  eapply cntinv_put_same; eauto.
Qed.

(** pop: a successful dequeue hands one unit of credit to the poll that follows *)
Lemma cntinv_pop b w :
  cntinv 0 w ->
  match fst (pop b w) with
  | PopReady _ => cntinv 1 (snd (pop b w))
  | _ => cntinv 0 (snd (pop b w))
  end.
Proof.
  intros H. unfold pop.
  assert (H0 : cntinv 0 (set_popk (S (popk w)) w)) by (revert H; apply cntinv_frame; reflexivity).
  destruct (forced_inc (S (popk w)) (set_popk (S (popk w)) w)); simpl.
  - apply cntinv_run_inj; auto.
  - change (get_blk (set_popk (S (popk w)) w) b) with (get_blk w b).
    destruct (get_blk w b) as [kb|] eqn:Hk; simpl.
    + destruct (bqueue kb) as [|i q] eqn:Hq; simpl.
      * apply cntinv_run_inj; auto.
      * apply cntinv_run_inj. apply cntinv_clear_flag. apply cntinv_run_inj.
        destruct H0 as [A B]. split; simpl in *; auto.
        pose proof (@qsum_upd _ _ _ (blk_set_queue kb q) Hk) as Hu. simpl in Hu. rewrite Hq in Hu. simpl in Hu. lia.
    + apply cntinv_emit; auto.
Qed.

Lemma cntinv_register pc b t w : cntinv pc w -> cntinv pc (register b t w).
Proof.
  intros H. unfold register. apply cntinv_run_inj.
  destruct (get_blk w b) as [k|] eqn:Hk.
  - assert (H1 : cntinv pc (put_blk b (blk_set_last (blk_set_reg k (Some t)) (Some t)) w))
      by (eapply cntinv_put_same; eauto).
    revert H1. apply cntinv_frame; reflexivity.
  - assert (H1 : cntinv pc (emit EStuck w)) by (apply cntinv_emit; auto).
    revert H1. apply cntinv_frame; reflexivity.
Qed.

Lemma cntinv_self_wake pc b t w : cntinv pc w -> cntinv pc (self_wake b t w).
Proof.
  intros H. unfold self_wake. apply cntinv_emit.
  destruct (get_blk w b) as [k|] eqn:Hk; auto. eapply cntinv_put_same; eauto.
Qed.

Lemma cntinv_poll_child k c b s w : cntinv 1 w -> cntinv 0 (snd (poll_child k c b s w)).
Proof.
  intros [A B]. unfold poll_child.
  assert (H1 : cntinv 0 (emit (ECPoll (cid c) b s (b, s)) (g_poll w))).
  { split; unfold credit in *; simpl in *; lia. }
  destruct (cdone c); simpl.
  - apply cntinv_emit; auto.
  - destruct (cscript c) as [|[acts r0] rest]; simpl.
    + apply cntinv_emit; auto.
    + apply cntinv_emit. apply cntinv_do_acts; auto.
Qed.

(** gpolls frame lemmas: only [poll_child] moves the poll counter, by exactly one *)
Definition gp (w : world) : nat := gpolls (wghost w).

Lemma gp_notify b w : gp (notify b w) = gp w.
Proof. unfold notify. destruct (get_blk w b) as [k|]; auto. destruct (breg k); auto. Qed.
Lemma gp_enqueue b s w : gp (snd (enqueue_slot b s w)) = gp w.
Proof. unfold enqueue_slot. destruct (get_blk w b) as [k|]; auto. destruct (nth_error (bflags k) s) as [[|]|]; auto. Qed.
Lemma gp_wake_slot b s w : gp (wake_slot b s w) = gp w.
Proof.
  unfold wake_slot. change (get_blk (g_wake w) b) with (get_blk w b).
  destruct (get_blk w b) as [k|]; auto. destruct (bfreed k); auto.
  pose proof (gp_enqueue b s (g_wake w)) as H. destruct (enqueue_slot b s (g_wake w)) as [q w1]. simpl in H.
  destruct q; auto. rewrite gp_notify. auto.
Qed.
Lemma gp_dec_strong b w : gp (dec_strong b w) = gp w.
Proof. unfold dec_strong. destruct (get_blk w b) as [k|]; auto. destruct (bfreed k); auto. destruct (bstrong k) as [|[|n]]; auto. Qed.
Lemma gp_inc_strong b w : gp (inc_strong b w) = gp w.
Proof. unfold inc_strong. destruct (get_blk w b) as [k|]; auto. destruct (bfreed k); auto. Qed.
Lemma gp_do_act cw a w : gp (do_act cw a w) = gp w.
Proof.
  destruct a; simpl.
  - destruct cw as [[t|b s]|]; simpl; auto. apply gp_wake_slot.
  - destruct cw as [[t|b s]|]; simpl; auto. apply gp_inc_strong.
  - destruct (get_handle w h) as [[t|b s]|]; simpl; auto. apply gp_wake_slot.
  - destruct (get_handle w h) as [[t|b s]|]; simpl; auto. rewrite gp_dec_strong, gp_wake_slot. reflexivity.
  - destruct (get_handle w h) as [[t|b s]|]; simpl; auto. rewrite gp_dec_strong. reflexivity.
  - destruct (get_handle w h) as [[t|b s]|]; simpl; auto. apply gp_inc_strong.
Qed.
Lemma gp_do_acts cw l w : gp (do_acts cw l w) = gp w.
Proof. unfold do_acts. revert w; induction l as [|a l IH]; simpl; intros w; auto. rewrite IH. apply gp_do_act. Qed.
Lemma gp_run_inj p k sl w : gp (run_inj p k sl w) = gp w.
Proof. unfold run_inj. destruct (find_inj p k (inj_pts (winj w))); auto. rewrite gp_do_acts. reflexivity. Qed.
Lemma gp_clear_flag b i w : gp (clear_flag b i w) = gp w.
Proof. unfold clear_flag. destruct (get_blk w b); auto. Qed.
Lemma gp_pop b w : gp (snd (pop b w)) = gp w.
Proof.
  unfold pop. destruct (forced_inc (S (popk w)) (set_popk (S (popk w)) w)); simpl.
  - rewrite gp_run_inj. reflexivity.
  - change (get_blk (set_popk (S (popk w)) w) b) with (get_blk w b).
    destruct (get_blk w b) as [kb|]; simpl; auto.
    destruct (bqueue kb) as [|i q]; simpl.
    + rewrite gp_run_inj. reflexivity.
    + rewrite gp_run_inj, gp_clear_flag, gp_run_inj. reflexivity.
Qed.
Lemma gp_self_wake b t w : gp (self_wake b t w) = gp w.
Proof. unfold self_wake. destruct (get_blk w b); reflexivity. Qed.
Lemma gp_register b t w : gp (register b t w) = gp w.
Proof. unfold register. rewrite gp_run_inj. destruct (get_blk w b); reflexivity. Qed.
Lemma gp_poll_child k c b s w : gp (snd (poll_child k c b s w)) = S (gp w).
Proof.
  unfold poll_child. destruct (cdone c); simpl; auto.
  destruct (cscript c) as [|[acts r0] rest]; simpl; auto. unfold gp at 1. simpl.
  change (gpolls (wghost (do_acts (Some (HChild b s)) acts (emit (ECPoll (cid c) b s (b, s)) (g_poll w)))))
    with (gp (do_acts (Some (HChild b s)) acts (emit (ECPoll (cid c) b s (b, s)) (g_poll w)))).
  rewrite gp_do_acts. reflexivity.
Qed.

(** ** the drain loop: accounting kept, at most [n] child polls *)
Lemma drain_count k n f t w :
  cntinv 0 w ->
  cntinv 0 (snd (drain k n f t w)) /\ gp (snd (drain k n f t w)) <= gp w + n.
Proof.
  revert f w. induction n as [|n IH]; intros f w H; cbn [drain].
  - cbn [snd]. split; [apply cntinv_self_wake; auto | rewrite gp_self_wake; lia].
  - pose proof (cntinv_pop (blk f) H) as Hp. pose proof (gp_pop (blk f) w) as Hg.
    destruct (pop (blk f) w) as [pr w1]. cbn [fst snd] in *.
    destruct pr as [| |i]; cbn [snd].
    + split; auto. lia.
    + split; [apply cntinv_self_wake; auto | rewrite gp_self_wake; lia].
    + destruct (sm_get (tasks f) i) as [c|].
      * pose proof (cntinv_poll_child k c (blk f) i Hp) as Hc.
        pose proof (gp_poll_child k c (blk f) i w1) as Hgc.
        destruct (poll_child k c (blk f) i w1) as [[c' r] w2]. cbn [snd] in *.
        destruct (is_ready r); cbn [snd].
        -- split; auto. lia.
        -- destruct (IH {| tasks := sm_set (tasks f) i c'; blk := blk f |} w2 Hc) as [I1 I2].
           split; auto. lia.
      * destruct (IH f w1 (cntinv_weaken (Nat.le_0_l 1) Hp)) as [I1 I2]. split; auto. lia.
Qed.

Ltac cisolve :=
  repeat first
    [ assumption
    | apply cntinv_emit
    | apply cntinv_do_acts
    | apply cntinv_dec_strong
    | apply cntinv_notify
    | apply (cntinv_enqueue _ _ bump_push)
    | apply (cntinv_enqueue _ _ bump_item) ].

Lemma cntinv_fub_remove pc f i w : cntinv pc w -> cntinv pc (snd (fub_remove f i w)).
Proof. intros H. unfold fub_remove. destruct (sm_get (tasks f) i); cbn [snd]; auto; try (apply cntinv_emit; auto). Qed.

Lemma cntinv_fub_try_push pc f c w : cntinv pc w -> cntinv pc (snd (fub_try_push f c w)).
Proof.
  intros H. unfold fub_try_push. destruct (sm_insert (tasks f) c); cbn [snd]; cisolve.
Qed.

Lemma cntinv_push_all pc b i n w : cntinv pc w -> cntinv pc (push_all b i n w).
Proof.
  revert i w; induction n as [|n IH]; intros i w H; simpl; auto.
  apply IH. apply (cntinv_enqueue b i bump_push H).
Qed.

Lemma cntinv_count_alloc pc n w : cntinv pc w -> cntinv pc (count_alloc n w).
Proof. apply cntinv_frame; reflexivity. Qed.

Lemma cntinv_alloc_block pc cap w : cntinv pc w -> cntinv pc (snd (alloc_block cap w)).
Proof.
  intros H. unfold alloc_block. simpl. apply cntinv_emit. revert H. apply cntinv_frame; auto.
  simpl. rewrite qsum_app. simpl. lia.
Qed.

Lemma cntinv_fub_new pc cap w : cntinv pc w -> cntinv pc (snd (fub_new cap w)).
Proof.
  intros H. unfold fub_new.
  pose proof (@cntinv_alloc_block pc cap (count_alloc (if Nat.eqb cap 0 then 0 else 1) w) (cntinv_count_alloc _ H)) as Ha.
  destruct (alloc_block cap (count_alloc (if Nat.eqb cap 0 then 0 else 1) w)) as [b w1]. auto.
Qed.

Lemma cntinv_fub_from_list pc l w : cntinv pc w -> cntinv pc (snd (fub_from_list l w)).
Proof.
  intros H. unfold fub_from_list.
  pose proof (@cntinv_alloc_block pc (length l) (count_alloc (if Nat.eqb (length l) 0 then 0 else 1) w) (cntinv_count_alloc _ H)) as Ha.
  destruct (alloc_block (length l) (count_alloc (if Nat.eqb (length l) 0 then 0 else 1) w)) as [b w1].
  simpl in *. apply cntinv_push_all; auto.
Qed.

Lemma cntinv_drop_children pc b m w : cntinv pc w -> cntinv pc (drop_children b m w).
Proof.
  unfold drop_children. generalize (sm_children m). intros l. revert w.
  induction l; simpl; intros w H; auto; try (apply IHl; apply cntinv_emit; auto).
Qed.

Lemma cntinv_fub_drop pc f w : cntinv pc w -> cntinv pc (fub_drop f w).
Proof. intros H. unfold fub_drop. apply cntinv_dec_strong. apply cntinv_drop_children; auto. Qed.

Section WithParams.
Variable P : params.

(** C13 (a): one call of [poll_inner_no_remove] performs at most [B] child polls *)
Lemma poll_inner_no_remove_count k f t w :
  cntinv 0 w ->
  cntinv 0 (snd (poll_inner_no_remove P k f t w))
  /\ gp (snd (poll_inner_no_remove P k f t w)) <= gp w + pB P.
Proof.
  intros H. unfold poll_inner_no_remove. destruct (Nat.eqb (fub_len f) 0); cbn [snd].
  - split; auto. lia.
  - destruct (drain_count k (pB P) f t (cntinv_register (blk f) t H)) as [A B].
    split; auto. rewrite gp_register in B. auto.
Qed.

Lemma cntinv_poll_inner k f t w : cntinv 0 w -> cntinv 0 (snd (poll_inner P k f t w)).
Proof.
  intros H. unfold poll_inner. destruct (poll_inner_no_remove_count k f t H) as [A _].
  destruct (poll_inner_no_remove P k f t w) as [[f1 pr] w1]. simpl in A.
  destruct pr; simpl; auto.
  pose proof (@cntinv_fub_remove 0 f1 i w1 A) as Hr. destruct (fub_remove f1 i w1); auto.
Qed.

Lemma cntinv_fub_poll_next k f t w : cntinv 0 w -> cntinv 0 (snd (fub_poll_next P k f t w)).
Proof.
  intros H. unfold fub_poll_next. pose proof (cntinv_poll_inner k f t H) as A.
  destruct (poll_inner P k f t w) as [[f1 pr] w1]. destruct pr; auto.
Qed.

Lemma cntinv_mb_poll_loop n f t w : cntinv 0 w -> cntinv 0 (snd (mb_poll_loop P n f t w)).
Proof.
  revert f w; induction n as [|n IH]; intros f w H; simpl.
  - apply cntinv_emit; auto.
  - destruct (poll_inner_no_remove_count KSrc f t H) as [A _].
    destruct (poll_inner_no_remove P KSrc f t w) as [[f1 pr] w1]. simpl in A.
    destruct pr as [| |i c r]; simpl; auto.
    assert (Hgo : cntinv 0 (snd (let '(f0, w0) := fub_remove f1 i w1 in mb_poll_loop P n f0 t w0))).
    { pose proof (@cntinv_fub_remove 0 f1 i w1 A) as Hr. destruct (fub_remove f1 i w1) as [f2 w2]. auto. }
    destruct r; auto. simpl. apply (cntinv_enqueue (blk f1) i bump_item A).
Qed.

Lemma cntinv_mb_poll_next f t w : cntinv 0 w -> cntinv 0 (snd (mb_poll_next P f t w)).
Proof. apply cntinv_mb_poll_loop. Qed.

(** unbounded *)
Lemma cntinv_push_group pc u g w : cntinv pc w -> cntinv pc (snd (push_group u g w)).
Proof.
  intros H. unfold push_group. destruct (vec_grow (length (groups u)) (gcap u)). simpl.
  apply cntinv_count_alloc; auto.
Qed.

Lemma cntinv_fu_push pc mrg u c w : cntinv pc w -> cntinv pc (snd (fu_push P mrg u c w)).
Proof.
  intros H. unfold fu_push. cbn [groups rem cursor gcap].
  set (u0 := {| groups := groups u; rem := if mrg then rem u else S (rem u); cursor := cursor u; gcap := gcap u |}).
  assert (H1 : cntinv pc (snd (match groups u with
                               | [] => let '(g, w0) := fub_new (pMinCap P) w in push_group u0 g w0
                               | _ :: _ => (u0, w) end))).
  { destruct (groups u); auto.
    pose proof (@cntinv_fub_new pc (pMinCap P) w H) as Hn. destruct (fub_new (pMinCap P) w) as [g w0].
    apply cntinv_push_group; auto. }
  destruct (match groups u with [] => _ | _ :: _ => _ end) as [u1 w1]. cbn [snd] in H1.
  destruct (last_opt (groups u1)) as [lastg|]; [|apply cntinv_emit; auto].
  pose proof (@cntinv_fub_try_push pc lastg c w1 H1) as Hp.
  destruct (fub_try_push lastg c w1) as [[g'| |] w2]; cbn [snd] in *; auto.
  pose proof (@cntinv_fub_new pc (fub_cap lastg * pGrowth P) w2 Hp) as Hn.
  destruct (fub_new (fub_cap lastg * pGrowth P) w2) as [g w3]. cbn [snd] in Hn.
  pose proof (@cntinv_fub_try_push pc g c w3 Hn) as Hp2.
  destruct (fub_try_push g c w3) as [[g'| |] w4]; cbn [snd] in *.
  - apply cntinv_push_group; auto.
  - apply cntinv_emit; auto.
  - apply cntinv_emit; auto.
Qed.

Lemma cntinv_poll_group mrg g t w : cntinv 0 w -> cntinv 0 (snd (poll_group P mrg g t w)).
Proof. intros H. unfold poll_group. destruct mrg; [apply cntinv_mb_poll_next | apply cntinv_fub_poll_next]; auto. Qed.

Lemma cntinv_fu_loop mrg n u t w : cntinv 0 w -> cntinv 0 (snd (fu_loop P mrg n u t w)).
Proof.
  revert u w; induction n as [|n IH]; intros u w H; cbn [fu_loop].
  - destruct (if mrg then _ else _); auto.
  - destruct (nth_error (groups u) (if Nat.leb (length (groups u)) (cursor u) then 0 else cursor u)) as [g|];
      [|apply cntinv_emit; auto].
    pose proof (cntinv_poll_group mrg g t H) as Hp.
    destruct (poll_group P mrg g t w) as [[g' sp] w1]. simpl in Hp.
    destruct sp; auto.
    destruct (remove_nth (groups u) (if Nat.leb (length (groups u)) (cursor u) then 0 else cursor u)); auto.
    destruct (Nat.eqb _ _); apply IH; auto. apply cntinv_fub_drop; auto.
Qed.

Lemma cntinv_fu_poll_next mrg u t w : cntinv 0 w -> cntinv 0 (snd (fu_poll_next P mrg u t w)).
Proof. intros H. unfold fu_poll_next. destruct (groups u); auto. apply cntinv_fu_loop; auto. Qed.

Lemma cntinv_fu_with_capacity pc n w : cntinv pc w -> cntinv pc (snd (fu_with_capacity n w)).
Proof.
  intros H. unfold fu_with_capacity. destruct (Nat.eqb n 0); auto.
  pose proof (@cntinv_fub_new pc n w H) as Hn. destruct (fub_new n w) as [g w1]. simpl.
  apply cntinv_count_alloc; auto.
Qed.

Lemma cntinv_fu_from_list pc mrg h l w : cntinv pc w -> cntinv pc (snd (fu_from_list P mrg h l w)).
Proof.
  intros H. unfold fu_from_list.
  assert (H0 : cntinv pc (snd (if mrg then (fu_empty, w) else fu_with_capacity (Nat.max h (pMinCap P)) w))).
  { destruct mrg; auto. apply cntinv_fu_with_capacity; auto. }
  destruct (if mrg then (fu_empty, w) else fu_with_capacity (Nat.max h (pMinCap P)) w) as [u0 w0].
  simpl in H0. revert u0 w0 H0. induction l as [|c l IH]; intros u0 w0 H0; simpl; auto.
  pose proof (@cntinv_fu_push pc mrg u0 c w0 H0) as Hp. destruct (fu_push P mrg u0 c w0) as [u1 w1].
  apply IH; auto.
Qed.

(** ordered *)
Lemma cntinv_ord_park pc o i t w : cntinv pc w -> cntinv pc (snd (ord_park o i t w)).
Proof. intros H. unfold ord_park. destruct (vec_grow _ _). simpl. apply cntinv_count_alloc; auto. Qed.

Lemma cntinv_fob_loop k n q t w : cntinv 0 w -> cntinv 0 (snd (fob_loop P k n q t w)).
Proof.
  revert q w; induction n as [|n IH]; intros q w H; cbn [fob_loop].
  - apply cntinv_emit; auto.
  - pose proof (cntinv_fub_poll_next k (fo_inner q) t H) as Hp.
    destruct (fub_poll_next P k (fo_inner q) t w) as [[f sp] w1]. simpl in Hp.
    destruct sp; auto. cbn [fo_ord fo_inner]. destruct (Z.eqb _ _); auto.
    pose proof (@cntinv_ord_park 0 (fo_ord q) (cidx c) t0 w1 Hp) as Ho.
    destruct (ord_park (fo_ord q) (cidx c) t0 w1) as [o w2]. apply IH; auto.
Qed.

Lemma cntinv_fob_poll_next k q t w : cntinv 0 w -> cntinv 0 (snd (fob_poll_next P k q t w)).
Proof.
  intros H. unfold fob_poll_next. destruct (ord_try_release P (fo_ord (fob_rebase P q))) as [[tk o]|]; auto.
  apply cntinv_fob_loop; auto.
Qed.

Lemma cntinv_fob_try_push pc front q c w : cntinv pc w -> cntinv pc (snd (fob_try_push P front q c w)).
Proof.
  intros H. unfold fob_try_push.
  pose proof (@cntinv_fub_try_push pc (fo_inner q) (child_set_idx c (if front then wdec P (nout (fo_ord q)) else nin (fo_ord q))) w H) as Hp.
  destruct (fub_try_push (fo_inner q) _ w) as [[f| |] w1]; auto.
Qed.

Lemma cntinv_fo_loop n q t w : cntinv 0 w -> cntinv 0 (snd (fo_loop P n q t w)).
Proof.
  revert q w; induction n as [|n IH]; intros q w H; cbn [fo_loop].
  - apply cntinv_emit; auto.
  - pose proof (cntinv_fu_poll_next false (fu_inner q) t H) as Hp.
    destruct (fu_poll_next P false (fu_inner q) t w) as [[u sp] w1]. simpl in Hp.
    destruct sp; auto. cbn [fu_ord fu_inner]. destruct (Z.eqb _ _); auto.
    pose proof (@cntinv_ord_park 0 (fu_ord q) (cidx c) t0 w1 Hp) as Ho.
    destruct (ord_park (fu_ord q) (cidx c) t0 w1) as [o w2]. apply IH; auto.
Qed.

Lemma cntinv_fo_poll_next q t w : cntinv 0 w -> cntinv 0 (snd (fo_poll_next P q t w)).
Proof.
  intros H. unfold fo_poll_next. destruct (ord_try_release P (fu_ord (fo_rebase P q))) as [[tk o]|]; auto.
  apply cntinv_fo_loop; auto.
Qed.

(** adapters *)
Lemma cntinv_up_poll pc try u t w : cntinv pc w -> cntinv pc (snd (up_poll try u t w)).
Proof.
  intros H. unfold up_poll. destruct (us_ended u); simpl; [apply cntinv_emit; auto|].
  destruct (us_steps u) as [|[s|a| |] rest]; simpl; try (apply cntinv_emit; auto).
  - apply cntinv_do_acts. apply cntinv_emit; auto.
  - destruct try; simpl; apply cntinv_emit; auto.
Qed.

Lemma cntinv_q_push pc q c w : cntinv pc w -> cntinv pc (snd (q_push P q c w)).
Proof.
  intros H. destruct q as [f|o]; simpl.
  - pose proof (@cntinv_fub_try_push pc f c w H) as Hp.
    destruct (fub_try_push f c w) as [[f'| |] w1]; simpl in *; auto; try (apply cntinv_emit; auto).
  - pose proof (@cntinv_fob_try_push pc false o c w H) as Hp.
    destruct (fob_try_push P false o c w) as [[o'|] w1]; simpl in *; auto; try (apply cntinv_emit; auto).
Qed.

Lemma cntinv_q_poll k q t w : cntinv 0 w -> cntinv 0 (snd (q_poll P k q t w)).
Proof.
  intros H. destruct q as [f|o]; simpl.
  - pose proof (cntinv_fub_poll_next k f t H) as Hp. destruct (fub_poll_next P k f t w) as [[f' sp] w1]. auto.
  - pose proof (cntinv_fob_poll_next k o t H) as Hp. destruct (fob_poll_next P k o t w) as [[o' sp] w1]. auto.
Qed.

Lemma cntinv_fill pc n a t w : cntinv pc w -> cntinv pc (snd (fill P n a t w)).
Proof.
  revert a w; induction n as [|n IH]; intros a w H; cbn [fill].
  - apply cntinv_emit; auto.
  - destruct (Nat.ltb _ _); auto. destruct (ad_up a) as [u|]; auto.
    pose proof (@cntinv_up_poll pc (ad_try a) u t w H) as Hu.
    destruct (up_poll (ad_try a) u t w) as [[u' r] w1]. simpl in Hu.
    destruct r; cbn [snd]; auto; try (apply cntinv_emit; auto; fail).
    pose proof (@cntinv_q_push pc (ad_q a) c w1 Hu) as Hq.
    destruct (q_push P (ad_q a) c w1) as [q' w2]. apply IH; auto.
Qed.

Lemma cntinv_adapter_poll a t w : cntinv 0 w -> cntinv 0 (snd (adapter_poll P a t w)).
Proof.
  intros H. unfold adapter_poll.
  pose proof (@cntinv_fill 0 (S (q_cap (ad_q a))) a t w H) as Hf.
  destruct (fill P (S (q_cap (ad_q a))) a t w) as [[a1 e] w1]. simpl in Hf.
  destruct e; auto.
  pose proof (cntinv_q_poll (ad_kind a1) (ad_q a1) t Hf) as Hq.
  destruct (q_poll P (ad_kind a1) (ad_q a1) t w1) as [[q sp] w2]. simpl in Hq.
  destruct sp; auto. destruct (ad_up a1); auto.
Qed.

Lemma cntinv_fec_loop n a t w : cntinv 0 w -> cntinv 0 (snd (fec_loop P n a t w)).
Proof.
  revert a w; induction n as [|n IH]; intros a w H; cbn [fec_loop].
  - apply cntinv_emit; auto.
  - assert (Hpull : cntinv 0 (snd (if Nat.ltb (fub_len (fe_q a)) (fub_cap (fe_q a)) then
                       match fe_up a with
                       | Some u =>
                           let '(u, r, w) := up_poll false u t w in
                           match r with
                           | UPItem c =>
                               match fub_try_push (fe_q a) c w with
                               | (PushOk f, w) => ({| fe_up := Some u; fe_q := f |}, true, w)
                               | (_, w) => ({| fe_up := Some u; fe_q := fe_q a |}, true, emit EStuck w)
                               end
                           | UPEnd => ({| fe_up := None; fe_q := fe_q a |}, false, emit EUpDrop w)
                           | _ => ({| fe_up := Some u; fe_q := fe_q a |}, false, w)
                           end
                       | None => (a, false, w)
                       end
                     else (a, false, w)))).
    { destruct (Nat.ltb _ _); auto. destruct (fe_up a) as [u|]; auto.
      pose proof (@cntinv_up_poll 0 false u t w H) as Hu.
      destruct (up_poll false u t w) as [[u' r] w1]. simpl in Hu.
      destruct r; cbn [snd]; auto; try (apply cntinv_emit; auto; fail).
      pose proof (@cntinv_fub_try_push 0 (fe_q a) c w1 Hu) as Hp.
      destruct (fub_try_push (fe_q a) c w1) as [[f'| |] w2]; cbn [snd] in *; auto; try (apply cntinv_emit; auto). }
    destruct (if Nat.ltb (fub_len (fe_q a)) (fub_cap (fe_q a)) then _ else _) as [[a1 pulled] w1].
    simpl in Hpull.
    pose proof (cntinv_fub_poll_next KFut (fe_q a1) t Hpull) as Hp.
    destruct (fub_poll_next P KFut (fe_q a1) t w1) as [[f sp] w2]. simpl in Hp.
    destruct sp; simpl.
    + destruct pulled; simpl; auto.
    + destruct (fe_up a1); simpl; auto. destruct pulled; simpl; auto.
    + auto.
Qed.

Lemma cntinv_drop_outputs pc i skip m out w : cntinv pc w -> cntinv pc (drop_outputs_from i skip m out w).
Proof.
  revert i w; induction out as [|o rest IH]; intros i w H; simpl; auto.
  apply IH. destruct (match skip with Some s => Nat.eqb s i | None => false end); auto.
  destruct (sm_get m i); auto; try (apply cntinv_emit; auto).
Qed.

Lemma cntinv_fub_clear pc f w : cntinv pc w -> cntinv pc (snd (fub_clear f w)).
Proof.
  unfold fub_clear. generalize (seq 0 (fub_cap f)). intros l. revert f w.
  induction l as [|j l IH]; intros f w H; simpl; auto.
  pose proof (@cntinv_fub_remove pc f j w H) as Hr. destruct (fub_remove f j w) as [f1 w1]. apply IH; auto.
Qed.

Lemma cntinv_join_loop n j t w : cntinv 0 w -> cntinv 0 (snd (join_loop P n j t w)).
Proof.
  revert j w; induction n as [|n IH]; intros j w H; cbn [join_loop].
  - apply cntinv_emit; auto.
  - pose proof (cntinv_poll_inner (if j_try j then KTry else KFut) (j_q j) t H) as Hp.
    destruct (poll_inner P (if j_try j then KTry else KFut) (j_q j) t w) as [[f pr] w1]. simpl in Hp.
    destruct pr as [| |i c r]; simpl; auto.
    destruct r; try (apply IH; auto).
    pose proof (@cntinv_fub_clear 0 f _ (cntinv_drop_outputs 0 (Some i) (tasks f) (j_out j) Hp)) as Hc.
    destruct (fub_clear f (drop_outputs_from 0 (Some i) (tasks f) (j_out j) w1)) as [f' w2]. auto.
Qed.

End WithParams.

(** ** every operation of every collection type keeps the accounting *)
Lemma cntinv_cleanup_from pc n h w : cntinv pc w -> cntinv pc (cleanup_from n h w).
Proof.
  revert h w; induction n as [|n IH]; intros h w H; cbn [cleanup_from]; auto.
  apply IH. apply cntinv_do_act; auto.
Qed.

Lemma cntinv_emit_ret pc r w : cntinv pc w -> cntinv pc (emit_ret r w).
Proof.
  intros H. unfold emit_ret. generalize (ret_toks r). intros l.
  assert (G : forall w0, cntinv pc w0 -> cntinv pc (fold_left (fun w t => emit (EODrop t false) w) l w0)).
  { induction l; simpl; intros; auto; try (apply IHl; apply cntinv_emit; auto). }
  apply G. apply cntinv_emit; auto.
Qed.

Lemma cntinv_drop_heap pc h w : cntinv pc w -> cntinv pc (drop_heap h w).
Proof.
  unfold drop_heap. revert w; induction h; simpl; intros w H; auto; try (apply IHh; apply cntinv_emit; auto).
Qed.

Lemma cntinv_fu_drop pc u w : cntinv pc w -> cntinv pc (fu_drop u w).
Proof.
  unfold fu_drop. generalize (groups u). intros l. revert w.
  induction l; simpl; intros w H; auto; try (apply IHl; apply cntinv_fub_drop; auto).
Qed.

Section Top.
Variable P : params.

Lemma cntinv_build t p inits ups w : cntinv 0 w -> cntinv 0 (snd (build P t p inits ups w)).
Proof.
  intros H. unfold build.
  assert (Hn : forall cap, cntinv 0 (snd (fub_new cap w))) by (intros; apply cntinv_fub_new; auto).
  assert (Hl : forall l, cntinv 0 (snd (fub_from_list l w))) by (intros; apply cntinv_fub_from_list; auto).
  assert (Hfob : forall cap seed, cntinv 0 (snd (fob_new P cap seed w))).
  { intros. unfold fob_new. specialize (Hn cap). destruct (fub_new cap w) as [f w1]. unfold heap_cap_for.
    cbn [snd] in *. apply cntinv_count_alloc; auto. }
  assert (Hfu : forall mrg h l, cntinv 0 (snd (fu_from_list P mrg h l w))) by (intros; apply cntinv_fu_from_list; auto).
  assert (Hfc : forall n, cntinv 0 (snd (fu_with_capacity n w))) by (intros; apply cntinv_fu_with_capacity; auto).
  destruct t.
  - destruct (p_iter p).
    + specialize (Hl (mk_children inits)). destruct (fub_from_list (mk_children inits) w); auto.
    + specialize (Hn (p_cap p)). destruct (fub_new (p_cap p) w); auto.
  - destruct (p_iter p); [|destruct (p_new p)]; auto.
    + specialize (Hfu false (lazy_hint p (mk_children inits)) (mk_children inits)). destruct (fu_from_list P false (lazy_hint p (mk_children inits)) (mk_children inits) w); auto.
    + specialize (Hfc (p_cap p)). destruct (fu_with_capacity (p_cap p) w); auto.
  - specialize (Hl (mk_children inits)). destruct (fub_from_list (mk_children inits) w); auto.
  - destruct (p_iter p); [|destruct (p_new p)]; auto.
    + specialize (Hfu true (lazy_hint p (mk_children inits)) (mk_children inits)). destruct (fu_from_list P true (lazy_hint p (mk_children inits)) (mk_children inits) w); auto.
    + specialize (Hfc (p_cap p)). destruct (fu_with_capacity (p_cap p) w); auto.
  - destruct (p_iter p).
    + unfold fob_from_list. specialize (Hl (index_children P (mk_children inits) 0)).
      destruct (fub_from_list (index_children P (mk_children inits) 0) w); auto.
    + specialize (Hfob (p_cap p) (seed_of p)). destruct (fob_new P (p_cap p) (seed_of p) w) as [[q|] w1]; auto;
      cbn [snd] in *; try (apply cntinv_emit; auto).
  - destruct (p_iter p); [|destruct (p_new p)]; auto.
    + unfold fo_from_list. specialize (Hfu false (lazy_hint p (mk_children inits)) (index_children P (mk_children inits) 0)).
      destruct (fu_from_list P false (lazy_hint p (mk_children inits)) (index_children P (mk_children inits) 0) w); auto.
    + unfold fo_with_capacity. specialize (Hfc (p_cap p)). destruct (fu_with_capacity (p_cap p) w) as [u w1].
      unfold heap_cap_for. cbn [snd] in *. apply cntinv_count_alloc; auto.
  - specialize (Hn (p_cap p)). destruct (fub_new (p_cap p) w); auto.
  - specialize (Hfob (p_cap p) 0%Z). destruct (fob_new P (p_cap p) 0%Z w) as [[q|] w1]; auto;
    cbn [snd] in *; try (repeat apply cntinv_emit; auto).
  - specialize (Hn (p_cap p)). destruct (fub_new (p_cap p) w); auto.
  - specialize (Hfob (p_cap p) 0%Z). destruct (fob_new P (p_cap p) 0%Z w) as [[q|] w1]; auto;
    cbn [snd] in *; try (repeat apply cntinv_emit; auto).
  - specialize (Hn (p_cap p)). destruct (fub_new (p_cap p) w); auto.
  - unfold join_new. specialize (Hl (mk_children inits)). destruct (fub_from_list (mk_children inits) w).
    cbn [snd] in *. apply cntinv_count_alloc; auto.
  - unfold join_new. specialize (Hl (mk_children inits)). destruct (fub_from_list (mk_children inits) w).
    cbn [snd] in *. apply cntinv_count_alloc; auto.
Qed.

Lemma cntinv_do_push try front c sc k w : cntinv 0 w -> cntinv 0 (snd (do_push P try front c sc k w)).
Proof.
  intros H. unfold do_push.
  assert (Hres : forall w0, cntinv 0 w0 -> cntinv 0 (if try then refused_result c w0 else bounded_push_result c false w0)).
  { intros w0 H0. destruct try; unfold refused_result, bounded_push_result; repeat apply cntinv_emit; auto. }
  destruct k; cbn [snd]; auto.
  - destruct front; auto.
    pose proof (@cntinv_fub_try_push 0 f (mk_child c sc) w H) as Hp.
    destruct (fub_try_push f (mk_child c sc) w) as [[f'| |] w1]; cbn [snd] in *; auto; try (apply cntinv_emit; auto).
  - destruct front; auto.
    pose proof (@cntinv_fub_try_push 0 f (mk_child c sc) w H) as Hp.
    destruct (fub_try_push f (mk_child c sc) w) as [[f'| |] w1]; cbn [snd] in *; auto; try (apply cntinv_emit; auto).
  - destruct (try || front); auto.
    pose proof (@cntinv_fu_push P 0 false u (mk_child c sc) w H) as Hp.
    destruct (fu_push P false u (mk_child c sc) w). cbn [snd] in *; try (apply cntinv_emit; auto).
  - destruct (try || front); auto.
    pose proof (@cntinv_fu_push P 0 true u (mk_child c sc) w H) as Hp.
    destruct (fu_push P true u (mk_child c sc) w). cbn [snd] in *; try (apply cntinv_emit; auto).
  - pose proof (@cntinv_fob_try_push P 0 front q (mk_child c sc) w H) as Hp.
    destruct (fob_try_push P front q (mk_child c sc) w) as [[q'|] w1]; cbn [snd] in *; auto; try (apply cntinv_emit; auto).
  - destruct try; auto. unfold fo_push.
    pose proof (@cntinv_fu_push P 0 false (fu_inner q) (child_set_idx (mk_child c sc) (if front then wdec P (nout (fu_ord q)) else nin (fu_ord q))) w H) as Hp.
    destruct (fu_push P false (fu_inner q) _ w). cbn [snd] in *; try (apply cntinv_emit; auto).
Qed.

Lemma cntinv_do_poll t k w : cntinv 0 w -> cntinv 0 (snd (do_poll P t k w)).
Proof.
  intros H. unfold do_poll. destruct k; cbn [snd]; auto.
  - pose proof (cntinv_fub_poll_next P KFut f t H) as Hp. destruct (fub_poll_next P KFut f t w) as [[? ?] ?].
    apply cntinv_emit_ret; auto.
  - pose proof (cntinv_mb_poll_next P f t H) as Hp. destruct (mb_poll_next P f t w) as [[? ?] ?].
    apply cntinv_emit_ret; auto.
  - pose proof (cntinv_fu_poll_next P false u t H) as Hp. destruct (fu_poll_next P false u t w) as [[? ?] ?].
    apply cntinv_emit_ret; auto.
  - pose proof (cntinv_fu_poll_next P true u t H) as Hp. destruct (fu_poll_next P true u t w) as [[? ?] ?].
    apply cntinv_emit_ret; auto.
  - pose proof (cntinv_fob_poll_next P KFut q t H) as Hp. destruct (fob_poll_next P KFut q t w) as [[? ?] ?].
    apply cntinv_emit_ret; auto.
  - pose proof (cntinv_fo_poll_next P q t H) as Hp. destruct (fo_poll_next P q t w) as [[? ?] ?].
    apply cntinv_emit_ret; auto.
  - pose proof (cntinv_adapter_poll P a t H) as Hp. destruct (adapter_poll P a t w) as [[? ?] ?].
    apply cntinv_emit_ret; auto.
  - unfold fec_poll. pose proof (cntinv_fec_loop P (fec_fuel a) a t H) as Hp.
    destruct (fec_loop P (fec_fuel a) a t w) as [[? ?] ?]. apply cntinv_emit_ret; auto.
  - unfold join_poll. pose proof (cntinv_join_loop P (S (fub_len (j_q j))) j t H) as Hp.
    destruct (join_loop P (S (fub_len (j_q j))) j t w) as [[? ?] ?]. apply cntinv_emit_ret; auto.
Qed.

Lemma cntinv_do_drop k w : cntinv 0 w -> cntinv 0 (snd (do_drop k w)).
Proof.
  intros H. unfold do_drop. destruct k; cbn [snd]; auto.
  - apply cntinv_fub_drop; auto.
  - apply cntinv_fub_drop; auto.
  - apply cntinv_fu_drop; auto.
  - apply cntinv_fu_drop; auto.
  - unfold fob_drop. apply cntinv_drop_heap. apply cntinv_fub_drop; auto.
  - unfold fo_drop. apply cntinv_drop_heap. apply cntinv_fu_drop; auto.
  - unfold adapter_drop, queue_drop.
    assert (H1 : cntinv 0 (match ad_up a with Some _ => emit EUpDrop w | None => w end))
      by (destruct (ad_up a); auto; try (apply cntinv_emit; auto)).
    destruct (ad_q a); [apply cntinv_fub_drop; auto|].
    unfold fob_drop. apply cntinv_drop_heap. apply cntinv_fub_drop; auto.
  - unfold fec_drop. apply cntinv_fub_drop. destruct (fe_up a); auto; try (apply cntinv_emit; auto).
  - unfold join_drop. apply cntinv_fub_drop. apply cntinv_drop_outputs; auto.
Qed.

Theorem cntinv_step_core k o w : cntinv 0 w -> cntinv 0 (snd (step_core P k o w)).
Proof.
  intros H. unfold step_core. destruct o; cbn [snd].
  - destruct k; auto. apply cntinv_build; auto.
  - apply cntinv_do_push; auto.
  - apply cntinv_do_push; auto.
  - apply cntinv_do_push; auto.
  - apply cntinv_do_push; auto.
  - apply cntinv_do_poll; auto.
  - apply cntinv_do_act; auto.
  - destruct (observe P k); auto; try (apply cntinv_emit; auto).
  - auto.
  - apply cntinv_do_drop; auto.
  - unfold cleanup. apply cntinv_cleanup_from; auto.
Qed.

Theorem cntinv_step s o : cntinv 0 (st_world s) -> cntinv 0 (st_world (fst (step_op P s o))).
Proof.
  intros H. unfold step_op. destruct (is_dead (st_coll s)); auto.
  assert (Hb : cntinv 0 (begin_op (op_inj o) (st_world s))) by (revert H; apply cntinv_frame; reflexivity).
  pose proof (cntinv_step_core (st_coll s) o Hb) as Hs.
  destruct (step_core P (st_coll s) o (begin_op (op_inj o) (st_world s))) as [k' w']. auto.
Qed.

End Top.
