(* conversions between OCaml natives and the extracted inductive numbers *)
open Model

(* Peano numbers are shared through a growing cache: [nat_of_int i] costs O(1) amortised and
   all occurrences of the same number are one value in memory *)
let nat_cache : nat array ref = ref (Array.make 1024 O)
let nat_cache_len = ref 1
let nat_of_int (i : int) : nat =
  if i <= 0 then O
  else begin
    if i >= Array.length !nat_cache then begin
      let n = Array.make (max (i + 1) (2 * Array.length !nat_cache)) O in
      Array.blit !nat_cache 0 n 0 !nat_cache_len;
      nat_cache := n
    end;
    while !nat_cache_len <= i do
      (!nat_cache).(!nat_cache_len) <- S (!nat_cache).(!nat_cache_len - 1);
      incr nat_cache_len
    done;
    (!nat_cache).(i)
  end
let int_of_nat (n : nat) : int =
  let rec go acc = function O -> acc | S m -> go (acc + 1) m in go 0 n

let rec pos_of_int (i : int) : positive =
  if i <= 1 then XH else if i land 1 = 1 then XI (pos_of_int (i lsr 1)) else XO (pos_of_int (i lsr 1))
let rec int_of_pos = function XH -> 1 | XO p -> 2 * int_of_pos p | XI p -> 2 * int_of_pos p + 1
let n_of_int i : n = if i <= 0 then N0 else Npos (pos_of_int i)
let int_of_n = function N0 -> 0 | Npos p -> int_of_pos p

(* unsigned 64-bit decimal string -> Z *)
let z_of_u64_string (s : string) : z =
  let v = Int64.of_string ("0u" ^ s) in
  if v = 0L then Z0 else
  let rec go (v : int64) : positive =
    if v = 1L then XH
    else
      let rest = Int64.shift_right_logical v 1 in
      if Int64.logand v 1L = 1L then XI (go rest) else XO (go rest) in
  Zpos (go v)

(* unsigned 64-bit decimal string -> N, and back *)
let n_of_u64_string (s : string) : n =
  match z_of_u64_string s with Zpos p -> Npos p | _ -> N0

let string_of_n (x : n) : string =
  let rec go p : int64 = match p with
    | XH -> 1L
    | XO p -> Int64.shift_left (go p) 1
    | XI p -> Int64.logor (Int64.shift_left (go p) 1) 1L in
  match x with N0 -> "0" | Npos p -> Printf.sprintf "%Lu" (go p)

let string_of_z (x : z) : string =
  (* only used for diagnostics; values fit in 64 bits unsigned *)
  let rec go p : int64 = match p with
    | XH -> 1L
    | XO p -> Int64.shift_left (go p) 1
    | XI p -> Int64.logor (Int64.shift_left (go p) 1) 1L in
  match x with
  | Z0 -> "0"
  | Zpos p -> Printf.sprintf "%Lu" (go p)
  | Zneg p -> "-" ^ Printf.sprintf "%Lu" (go p)
