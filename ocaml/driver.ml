(* driver of the extracted model.
     driver run  <B> <mincap> <growth> <w> <history-file> <trace-file>   model trace of every history *)
open Model
open Conv
open Hist

let params_of b m g w = { pB = nat_of_int b; pMinCap = nat_of_int m; pGrowth = nat_of_int g; pW = nat_of_int w }

let run_history (p : params) (oc : out_channel) (h : history) =
  Printf.fprintf oc "hist %s\n" h.name;
  let st = ref init_state in
  List.iteri (fun k (text, o) ->
      match !st.st_coll with
      | CDead -> ()
      | _ ->
        let (s', evs) = step_op p !st o in
        st := s';
        Printf.fprintf oc "op %d %s\n" k text;
        List.iter (fun e -> output_string oc (str_event e); output_char oc '\n') evs)
    h.ops;
  output_string oc "endhist\n"

(* evaluate the extracted monitors on a trace file *)
let monitors (b : int) : (string * (Model.op * event list) list -> bool) list = []

let chk_history (b : int) (oc : out_channel) (tr : (string, (int * event list) list) Hashtbl.t) (h : history) =
  match Hashtbl.find_opt tr h.name with
  | None -> Printf.fprintf oc "%s MISSING\n" h.name
  | Some ops ->
    (* align with the history's ops; a dead history simply has fewer ops; leak diagnostics (-2)
       are appended to the last op present *)
    let leaks = List.concat_map (fun (k, evs) -> if k = -2 then evs else []) ops in
    let real = List.filter (fun (k, _) -> k >= 0) ops in
    let n = List.length real in
    let t = List.mapi (fun i (k, evs) ->
        let (_, o) = List.nth h.ops k in
        (o, if i = n - 1 then evs @ leaks else evs)) real in
    let bb = nat_of_int b in
    let names = ["C01";"C02";"C03";"C04";"C05";"C06";"C07";"C08";"C09";"C10";"C11";"C12";"C13";"C14";"C15";"C16";"C17";"C18";"K14"] in
    let res = List.combine names (chk_all bb t) in
    Printf.fprintf oc "%s %s\n" h.name
      (String.concat " " (List.map (fun (n, v) -> Printf.sprintf "%s=%d" n (if v then 1 else 0)) res))

let () =
  match Array.to_list Sys.argv with
  | _ :: "chk" :: b :: hf :: tf :: outf :: _ ->
    let ic = open_in hf in
    let hs = read_histories ic in
    close_in ic;
    let tr = read_trace_file tf in
    let oc = open_out outf in
    List.iter (chk_history (int_of_string b) oc tr) hs;
    close_out oc
  | _ :: "run" :: b :: m :: g :: w :: hf :: tf :: _ ->
    let p = params_of (int_of_string b) (int_of_string m) (int_of_string g) (int_of_string w) in
    let ic = open_in hf in
    let hs = read_histories ic in
    close_in ic;
    let oc = open_out tf in
    List.iter (run_history p oc) hs;
    close_out oc
  | _ -> prerr_endline "usage: driver run B mincap growth w hist trace"; exit 2
