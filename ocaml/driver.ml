(* driver of the extracted model.
     driver run  <B> <mincap> <growth> <w> <history-file> <trace-file>   model trace of every history *)
open Model
open Conv
open Hist

let params_of b m g w = { pB = nat_of_int b; pMinCap = nat_of_int m; pGrowth = nat_of_int g; pW = nat_of_int w }

let run_history (p : params) (oc : out_channel) (h : history) =
  Printf.fprintf oc "hist %s\n" h.name;
  let st = ref init_state in
  List.iteri (fun k (text, o) ->
      match !st.st_coll with
      | CDead -> ()
      | _ ->
        let (s', evs) = step_op p !st o in
        st := s';
        Printf.fprintf oc "op %d %s\n" k text;
        List.iter (fun e -> output_string oc (str_event e); output_char oc '\n') evs)
    h.ops;
  output_string oc "endhist\n"

let () =
  match Array.to_list Sys.argv with
  | _ :: "run" :: b :: m :: g :: w :: hf :: tf :: _ ->
    let p = params_of (int_of_string b) (int_of_string m) (int_of_string g) (int_of_string w) in
    let ic = open_in hf in
    let hs = read_histories ic in
    close_in ic;
    let oc = open_out tf in
    List.iter (run_history p oc) hs;
    close_out oc
  | _ -> prerr_endline "usage: driver run B mincap growth w hist trace"; exit 2
