(* history-file parser and trace printer (formats: /verif/docs/FORMAT.md) *)
open Model
open Conv

exception Parse_error of string

let split_on c s = String.split_on_char c s
let starts_with p s = String.length s >= String.length p && String.sub s 0 (String.length p) = p
let drop n s = String.sub s n (String.length s - n)

let parse_act (s : string) : act option =
  if s = "" then None
  else match s.[0] with
    | 's' when String.length s = 1 -> Some ASelf
    | 'c' when String.length s = 1 -> Some ACloneSelf
    | 'w' -> Some (AWakeRef (nat_of_int (int_of_string (drop 1 s))))
    | 'W' -> Some (AWake (nat_of_int (int_of_string (drop 1 s))))
    | 'd' -> Some (ADrop (nat_of_int (int_of_string (drop 1 s))))
    | 'k' -> Some (AClone (nat_of_int (int_of_string (drop 1 s))))
    | _ -> raise (Parse_error ("act " ^ s))

let parse_acts (s : string) : act list =
  if s = "" || s = "-" then [] else List.filter_map parse_act (split_on '.' s)

let parse_res = function
  | "P" -> RP | "R" -> RR | "X" -> RX | "I" -> RI | "E" -> RE
  | s -> raise (Parse_error ("res " ^ s))

let parse_step (s : string) : step =
  match String.rindex_opt s ':' with
  | None -> raise (Parse_error ("step " ^ s))
  | Some i -> (parse_acts (String.sub s 0 i), parse_res (drop (i + 1) s))

let parse_script (s : string) : script =
  if s = "-" || s = "" then [] else List.map parse_step (split_on ';' s)

let parse_ctype = function
  | "FUB" -> TFUB | "FU" -> TFU | "MB" -> TMB | "MU" -> TMU | "FOB" -> TFOB | "FO" -> TFO
  | "BU" -> TBU | "BO" -> TBO | "TBU" -> TTBU | "TBO" -> TTBO | "FEC" -> TFEC
  | "JA" -> TJA | "TJA" -> TTJA
  | s -> raise (Parse_error ("type " ^ s))

let parse_params (kvs : string list) : cparams =
  let get k = List.find_map (fun kv ->
      match String.index_opt kv '=' with
      | Some i when String.sub kv 0 i = k -> Some (drop (i + 1) kv)
      | _ -> None) kvs in
  let geti k d = match get k with Some v -> int_of_string v | None -> d in
  let cap = match get "cap" with Some v -> int_of_string v | None -> geti "n" 0 in
  { p_cap = nat_of_int cap;
    p_new = (geti "new" 0 = 1);
    p_iter = (geti "iter" 0 = 1);
    p_lazy = (match get "ihint" with
              | Some v -> Some (nat_of_int (int_of_string v))
              | None -> if geti "lazy" 0 = 1 then Some (nat_of_int 0) else None);
    p_seed = (match get "seed" with Some v -> Some (z_of_u64_string v) | None -> None);
    p_hlo = nat_of_int (geti "hlo" 0);
    p_hhi = (match get "hhi" with Some "none" -> None | Some v -> Some (n_of_u64_string v) | None -> Some N0) }

let parse_inj (toks : string list) : injection =
  let pts = ref [] and inc = ref [] in
  List.iter (fun t ->
      if t = "" then () else
      match String.index_opt t '#' with
      | None -> raise (Parse_error ("inj " ^ t))
      | Some i ->
        let name = String.sub t 0 i in
        let rest = drop (i + 1) t in
        if name = "inc" then inc := nat_of_int (int_of_string rest) :: !inc
        else begin
          let j = String.index rest '=' in
          let k = nat_of_int (int_of_string (String.sub rest 0 j)) in
          let acts = parse_acts (drop (j + 1) rest) in
          let p = match name with "reg" -> IReg | "mid" -> IMid | "exit" -> IExit
                                  | _ -> raise (Parse_error ("inj point " ^ name)) in
          pts := ((p, k), acts) :: !pts
        end) toks;
  { inj_pts = List.rev !pts; inj_inc = List.rev !inc }

let parse_op (line : string) : op option =
  match split_on ' ' line with
  | "push" :: c :: s :: _ -> Some (OPush (n_of_int (int_of_string c), parse_script s))
  | "pushf" :: c :: s :: _ -> Some (OPushF (n_of_int (int_of_string c), parse_script s))
  | "trypush" :: c :: s :: _ -> Some (OTryPush (n_of_int (int_of_string c), parse_script s))
  | "trypushf" :: c :: s :: _ -> Some (OTryPushF (n_of_int (int_of_string c), parse_script s))
  | "poll" :: w :: inj -> Some (OPoll (nat_of_int (int_of_string w), parse_inj inj))
  | "env" :: a :: _ -> (match parse_act a with Some a -> Some (OEnv a) | None -> None)
  | ["obs"] -> Some OObs
  | ["move"] -> Some OMove
  | ["dropcoll"] -> Some ODropColl
  | ["cleanup"] -> Some OCleanup
  | _ -> raise (Parse_error ("op " ^ line))

type history = { name : string; ops : (string * op) list }

(* reads all histories of a channel *)
let read_histories (ic : in_channel) : history list =
  let hs = ref [] in
  let cur_name = ref "" and cur_ops = ref [] in
  let ty = ref TFUB and pr = ref (parse_params []) and inits = ref [] and ups = ref [] in
  (try
     while true do
       let line = String.trim (input_line ic) in
       if line = "" || line.[0] = '#' then ()
       else match split_on ' ' line with
         | "hist" :: n :: _ -> cur_name := n; cur_ops := []; inits := []; ups := []
         | "new" :: t :: kvs -> ty := parse_ctype t; pr := parse_params kvs
         | "init" :: c :: s :: _ -> inits := (n_of_int (int_of_string c), parse_script s) :: !inits
         | "up" :: "item" :: s :: _ -> ups := UItem (parse_script s) :: !ups
         | "up" :: "pend" :: a :: _ -> ups := UPend (parse_acts a) :: !ups
         | ["up"; "pend"] -> ups := UPend [] :: !ups
         | ["up"; "err"] -> ups := UErr :: !ups
         | ["up"; "end"] -> ups := UEnd :: !ups
         | ["build"] -> cur_ops := ("build", OBuild (!ty, !pr, List.rev !inits, List.rev !ups)) :: !cur_ops
         | ["endhist"] -> hs := { name = !cur_name; ops = List.rev !cur_ops } :: !hs
         | _ -> (match parse_op line with Some o -> cur_ops := (line, o) :: !cur_ops | None -> ())
     done
   with End_of_file -> ());
  List.rev !hs

(* ---------- printing ---------- *)
let str_tok = function
  | TOut c -> Printf.sprintf "o%d" (int_of_n c)
  | TErr c -> Printf.sprintf "e%d" (int_of_n c)
  | TItem (c, k) -> Printf.sprintf "i%d.%d" (int_of_n c) (int_of_nat k)
  | TUp k -> Printf.sprintf "u%d" (int_of_nat k)
  | TGarbage -> "?"

let str_toks l = if l = [] then "-" else String.concat "," (List.map str_tok l)

let str_res = function RP -> "P" | RR -> "R" | RX -> "X" | RI -> "I" | RE -> "E"

let str_ret = function
  | RetPending -> "pending" | RetNone -> "none" | RetItem t -> "item " ^ str_tok t
  | RetReady l -> "ready " ^ str_toks l | RetOkv l -> "okv " ^ str_toks l
  | RetErr t -> "err " ^ str_tok t | RetDone -> "done" | RetOk -> "ok"
  | RetRefused -> "refused" | RetPanic -> "panic" | RetRunaway -> "runaway"

let str_addr ((b, s) : addr) = Printf.sprintf "@%d.%d" (int_of_nat b) (int_of_nat s)

let str_on f = function Some x -> f x | None -> "-"
let str_nat n = string_of_int (int_of_nat n)
let str_bool b = if b then "1" else "0"

let str_event = function
  | EBlkAlloc (b, c) -> Printf.sprintf "blk alloc %s %s" (str_nat b) (str_nat c)
  | EBlkFree b -> Printf.sprintf "blk free %s" (str_nat b)
  | EVtBad -> "vtbad"
  | ECPoll (c, b, s, a) -> Printf.sprintf "cpoll %d %s %s %s" (int_of_n c) (str_nat b) (str_nat s) (str_addr a)
  | ECAns (c, r) -> Printf.sprintf "cans %d %s" (int_of_n c) (str_res r)
  | ECDrop (c, Some a) -> Printf.sprintf "cdrop %d %s" (int_of_n c) (str_addr a)
  | ECDrop (c, None) -> Printf.sprintf "cdrop %d ext" (int_of_n c)
  | EODrop (t, inside) -> Printf.sprintf "odrop %s %s" (str_tok t) (if inside then "in" else "out")
  | ETWake (w, CChild) -> Printf.sprintf "twake %s child" (str_nat w)
  | ETWake (w, CCrate) -> Printf.sprintf "twake %s crate" (str_nat w)
  | EUpPoll (UAItem c) -> Printf.sprintf "uppoll item %d" (int_of_n c)
  | EUpPoll UAPend -> "uppoll pend"
  | EUpPoll UAEnd -> "uppoll end"
  | EUpPoll (UAErr t) -> "uppoll err " ^ str_tok t
  | EUpPoll UAAfterEnd -> "uppoll after-end"
  | EUpDrop -> "updrop"
  | ERefused c -> Printf.sprintf "refused %d" (int_of_n c)
  | ERet r -> "ret " ^ str_ret r
  | EObs o ->
    Printf.sprintf "obs len=%s empty=%s cap=%s hint=%s term=%s"
      (str_on str_nat o.ob_len) (str_on str_bool o.ob_empty) (str_on str_nat o.ob_cap)
      (str_on (fun (lo, hi) -> string_of_n lo ^ "," ^ (match hi with Some h -> string_of_n h | None -> "none")) o.ob_hint)
      (str_on str_bool o.ob_term)
  | EAlloc n -> "alloc " ^ str_nat n
  | EInj (p, k, sl) -> Printf.sprintf "inj %s %s %s" (match p with IReg -> "reg" | IMid -> "mid" | IExit -> "exit") (str_nat k)
                         (match sl with Some (b, i) -> Printf.sprintf "%s.%s" (str_nat b) (str_nat i) | None -> "-")
  | ELeak -> "leak"
  | EStuck -> "STUCK"
  | EOutOfFuel -> "OUTOFFUEL"

(* ---------- parsing traces back into events (implementation or model traces) ---------- *)
let parse_tok (s : string) : tok =
  if s = "?" || s = "" then TGarbage
  else
    try
      match s.[0] with
      | 'o' -> TOut (n_of_int (int_of_string (drop 1 s)))
      | 'e' -> TErr (n_of_int (int_of_string (drop 1 s)))
      | 'u' -> TUp (nat_of_int (int_of_string (drop 1 s)))
      | 'i' ->
        let r = drop 1 s in
        let j = String.index r '.' in
        TItem (n_of_int (int_of_string (String.sub r 0 j)), nat_of_int (int_of_string (drop (j + 1) r)))
      | _ -> TGarbage
    with _ -> TGarbage

let parse_toks (s : string) : tok list =
  if s = "-" || s = "" then [] else List.map parse_tok (split_on ',' s)

let opt_of f s = if s = "-" then None else Some (f s)
let kv_val (kv : string) = match String.index_opt kv '=' with Some i -> drop (i + 1) kv | None -> ""

(* addrs: table from address text to an id, per history *)
let parse_event (addrs : (string, int) Hashtbl.t) (line : string) : event option =
  let addr a =
    let id = match Hashtbl.find_opt addrs a with
      | Some i -> i
      | None -> let i = Hashtbl.length addrs in Hashtbl.add addrs a i; i in
    (nat_of_int id, O) in
  let nat s = try nat_of_int (int_of_string s) with _ -> nat_of_int 999999 in
  let cidn s = try n_of_int (int_of_string s) with _ -> n_of_int 999999 in
  match split_on ' ' line with
  | ["blk"; "alloc"; b; c] -> Some (EBlkAlloc (nat b, nat c))
  | ["blk"; "free"; b] -> Some (EBlkFree (nat b))
  | "vtbad" :: _ -> Some EVtBad
  | ["cpoll"; c; b; s; a] -> Some (ECPoll (cidn c, nat b, nat s, addr a))
  | ["cans"; c; r] -> Some (ECAns (cidn c, parse_res r))
  | ["cdrop"; c; "ext"] -> Some (ECDrop (cidn c, None))
  | ["cdrop"; c; a] -> Some (ECDrop (cidn c, Some (addr a)))
  | ["odrop"; t; w] -> Some (EODrop (parse_tok t, w = "in"))
  | ["twake"; w; "child"] -> Some (ETWake (nat w, CChild))
  | ["twake"; w; "crate"] -> Some (ETWake (nat w, CCrate))
  | ["uppoll"; "item"; c] -> Some (EUpPoll (UAItem (cidn c)))
  | ["uppoll"; "pend"] -> Some (EUpPoll UAPend)
  | ["uppoll"; "end"] -> Some (EUpPoll UAEnd)
  | ["uppoll"; "err"; t] -> Some (EUpPoll (UAErr (parse_tok t)))
  | ["uppoll"; "after-end"] -> Some (EUpPoll UAAfterEnd)
  | ["updrop"] -> Some EUpDrop
  | ["refused"; c] -> Some (ERefused (cidn c))
  | ["ret"; "pending"] -> Some (ERet RetPending)
  | ["ret"; "none"] -> Some (ERet RetNone)
  | ["ret"; "item"; t] -> Some (ERet (RetItem (parse_tok t)))
  | ["ret"; "ready"; l] -> Some (ERet (RetReady (parse_toks l)))
  | ["ret"; "okv"; l] -> Some (ERet (RetOkv (parse_toks l)))
  | ["ret"; "err"; t] -> Some (ERet (RetErr (parse_tok t)))
  | ["ret"; "done"] -> Some (ERet RetDone)
  | ["ret"; "ok"] -> Some (ERet RetOk)
  | ["ret"; "refused"] -> Some (ERet RetRefused)
  | ["ret"; "panic"] -> Some (ERet RetPanic)
  | ["ret"; "runaway"] -> Some (ERet RetRunaway)
  | ["obs"; l; e; c; h; t] ->
    let hint s =
      match split_on ',' s with
      | [lo; "none"] -> (n_of_u64_string lo, None)
      | [lo; hi] -> (n_of_u64_string lo, Some (n_of_u64_string hi))
      | _ -> (N0, None) in
    Some (EObs { ob_len = opt_of nat (kv_val l); ob_empty = opt_of (fun s -> s = "1") (kv_val e);
                 ob_cap = opt_of nat (kv_val c); ob_hint = opt_of hint (kv_val h);
                 ob_term = opt_of (fun s -> s = "1") (kv_val t) })
  | ["alloc"; n] -> Some (EAlloc (nat n))
  | ["inj"; p; k; sl] ->
    let slot = if sl = "-" then None else
        (match split_on '.' sl with [b; i] -> Some (nat b, nat i) | _ -> None) in
    Some (EInj ((match p with "reg" -> IReg | "mid" -> IMid | _ -> IExit), nat k, slot))
  | "leak" :: _ | "twbal" :: _ -> Some ELeak
  | ["STUCK"] -> Some EStuck
  | ["OUTOFFUEL"] -> Some EOutOfFuel
  | _ -> None

(* reads a trace file: name -> (op index -> events) *)
let read_trace_file (path : string) : (string, (int * event list) list) Hashtbl.t =
  let tbl = Hashtbl.create 1024 in
  let ic = open_in path in
  let cur = ref "" and ops = ref [] and evs = ref [] and curk = ref (-1) in
  let addrs = ref (Hashtbl.create 16) in
  let flush_op () = (if !curk >= 0 || !curk = -2 then ops := (!curk, List.rev !evs) :: !ops); evs := []; curk := -1 in
  (try
     while true do
       let line = input_line ic in
       if starts_with "hist " line then begin
         cur := drop 5 line; ops := []; evs := []; curk := -1; addrs := Hashtbl.create 16
       end else if line = "endhist" then begin
         flush_op (); Hashtbl.replace tbl !cur (List.rev !ops)
       end else if starts_with "op " line then begin
         flush_op ();
         (match split_on ' ' line with
          | _ :: k :: rest ->
            curk := int_of_string k;
            (* the pseudo-op "endhist" carries leak diagnostics: attach them to the last real op *)
            if rest = ["endhist"] then curk := -2
          | _ -> ())
       end else begin
         match parse_event !addrs line with
         | Some e -> if !curk = -2 then evs := e :: !evs else evs := e :: !evs
         | None -> ()
       end
     done
   with End_of_file -> ());
  close_in ic;
  tbl
