#!/bin/sh
# builds the driver of the extracted model: ocaml/gen/model.ml{,i} must exist (coq `make`).
# Skips the build when the sources are unchanged; installs the new binary by an atomic rename
# so that a check running the old one concurrently is not disturbed.
set -e
cd "$(dirname "$0")"
mkdir -p _build
sum=$(cat gen/model.ml gen/model.mli conv.ml hist.ml driver.ml | sha256sum | cut -d' ' -f1)
if [ -x driver ] && [ -f _build/stamp ] && [ "$(cat _build/stamp)" = "$sum" ]; then exit 0; fi
cp gen/model.ml gen/model.mli conv.ml hist.ml driver.ml _build/
cd _build
ocamlfind ocamlopt -O3 -w -a -package str model.mli model.ml conv.ml hist.ml driver.ml -o driver.new 2>/dev/null || \
ocamlfind ocamlopt -w -a model.mli model.ml conv.ml hist.ml driver.ml -o driver.new
mv -f driver.new ../driver
echo "$sum" > stamp
