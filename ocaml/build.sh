#!/bin/sh
# builds the driver of the extracted model: ocaml/gen/model.ml{,i} must exist (coq `make`)
set -e
cd "$(dirname "$0")"
mkdir -p _build
cp gen/model.ml gen/model.mli conv.ml hist.ml driver.ml _build/
[ -f monitors_glue.ml ] && cp monitors_glue.ml _build/ || true
cd _build
ocamlfind ocamlopt -O3 -w -a -package str model.mli model.ml conv.ml hist.ml driver.ml -o ../driver 2>/dev/null || \
ocamlfind ocamlopt -w -a model.mli model.ml conv.ml hist.ml driver.ml -o ../driver
