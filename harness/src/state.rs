//! Per-history global state and the trace buffer.
//!
//! Everything lives behind one `Mutex` that is only ever taken through [`g`], for a short
//! closure that must not call into the crate, must not drop a `Waker` / `Tok` / child and
//! must not panic (all of those could re-enter [`g`]).

use crate::galloc::CbGuard;
use crate::script::{Act, Inj, Script, UpStep};
use std::collections::BTreeMap;
use std::fmt::Write as _;
use std::sync::{Arc, Mutex};
use std::task::{Wake, Waker};

pub struct ChildRec {
    pub cid: u32,
    pub script: Script,
    /// next step
    pub pc: usize,
    pub accepted: bool,
    pub dropped: bool,
    /// gave its final answer (`R`/`X` for futures, `E` for sources)
    pub done: bool,
    /// next item number of a source
    pub seq: u64,
}

pub struct Block {
    pub base: usize,
    #[allow(dead_code)]
    pub cap: usize,
    pub size: usize,
    pub live: bool,
}

pub struct UpState {
    pub script: Vec<UpStep>,
    pub pc: usize,
    pub ended: bool,
    pub items_made: u32,
    /// address at which the upstream was polled last (0 = not polled yet): it is `!Unpin`
    pub addr: usize,
    pub hlo: usize,
    /// `None` = `hhi=none`
    pub hhi: Option<usize>,
    pub is_try: bool,
}

impl UpState {
    pub const fn new() -> Self {
        UpState {
            script: Vec::new(),
            pc: 0,
            ended: false,
            items_made: 0,
            addr: 0,
            hlo: 0,
            hhi: Some(0),
            is_try: false,
        }
    }

    /// number of items the upstream will still yield: unanswered `item` (+ `err` for the
    /// try adapters) steps before the first unanswered `end`
    pub fn rem(&self) -> usize {
        if self.ended {
            return 0;
        }
        let mut n = 0;
        for st in self.script.iter().skip(self.pc) {
            match st {
                UpStep::Item(_) => n += 1,
                UpStep::Err if self.is_try => n += 1,
                UpStep::End => break,
                _ => {}
            }
        }
        n
    }
}

pub struct TaskWaker {
    pub id: u32,
}

impl Wake for TaskWaker {
    fn wake(self: Arc<Self>) {
        Wake::wake_by_ref(&self)
    }

    fn wake_by_ref(self: &Arc<Self>) {
        let _cb = CbGuard::enter();
        let child =
            crate::galloc::IN_CHILD_WAKER_CALL.load(std::sync::atomic::Ordering::Relaxed) > 0;
        let id = self.id;
        g(|g| {
            g.logf(format_args!(
                "twake {} {}",
                id,
                if child { "child" } else { "crate" }
            ))
        });
    }
}

pub struct Globals {
    pub out: String,
    pub suppress: bool,
    pub children: Vec<ChildRec>,
    /// tokens created and not yet dropped, in creation order: (kind, a, b)
    pub toks: Vec<(u32, u32, u64)>,
    pub blocks: Vec<Block>,
    pub handles: Vec<Option<Waker>>,
    pub wakers: BTreeMap<u32, Arc<TaskWaker>>,
    pub up: UpState,
    pub inj: Inj,
    pub reg_count: usize,
    pub pop_count: usize,
    // layout constants of the crate, filled in at start-up
    pub slice_offset: usize,
    pub item_size: usize,
}

impl Globals {
    const fn new() -> Self {
        Globals {
            out: String::new(),
            suppress: false,
            children: Vec::new(),
            toks: Vec::new(),
            blocks: Vec::new(),
            handles: Vec::new(),
            wakers: BTreeMap::new(),
            up: UpState::new(),
            inj: Inj {
                reg: Vec::new(),
                mid: Vec::new(),
                exit: Vec::new(),
                inc: Vec::new(),
            },
            reg_count: 0,
            pop_count: 0,
            slice_offset: 0,
            item_size: 1,
        }
    }

    pub fn logf(&mut self, args: std::fmt::Arguments<'_>) {
        if !self.suppress {
            let _ = self.out.write_fmt(args);
            self.out.push('\n');
        }
    }

    /// block (newest first, live or freed) whose address range contains `p`
    pub fn block_containing(&self, p: usize) -> Option<usize> {
        for (b, blk) in self.blocks.iter().enumerate().rev() {
            if p >= blk.base && p - blk.base < blk.size {
                return Some(b);
            }
        }
        None
    }

    /// `(b, slot)` of a waker data pointer
    pub fn decode(&self, p: usize) -> Option<(usize, usize)> {
        let b = self.block_containing(p)?;
        let off = p - self.blocks[b].base;
        if off < self.slice_offset {
            return None;
        }
        Some((b, (off - self.slice_offset) / self.item_size))
    }

    pub fn live_block_at(&self, base: usize) -> Option<usize> {
        for (b, blk) in self.blocks.iter().enumerate().rev() {
            if blk.live && blk.base == base {
                return Some(b);
            }
        }
        None
    }
}

static G: Mutex<Globals> = Mutex::new(Globals::new());

/// Short, non re-entrant access to the globals.
#[inline]
pub fn g<R>(f: impl FnOnce(&mut Globals) -> R) -> R {
    let _cb = CbGuard::enter();
    let mut guard = G.lock().unwrap_or_else(|e| e.into_inner());
    f(&mut guard)
}

#[macro_export]
macro_rules! logf {
    ($($arg:tt)*) => {
        $crate::state::g(|g| g.logf(format_args!($($arg)*)))
    };
}

/// Extra strong references every task waker is created with and that are never given
/// back.  A crate that releases its shared block twice (or uses it after releasing it)
/// drops the registered task waker more often than it cloned it; with the bias such an
/// over-release shows up as a negative `twbal` instead of freeing the `Arc` under the
/// harness' feet.  (The few bytes of each task waker are therefore never freed.)
pub const TW_BIAS: usize = 256;

/// the task waker `wid`, created on first use
pub fn task_waker(wid: u32) -> Arc<TaskWaker> {
    g(|g| {
        g.wakers
            .entry(wid)
            .or_insert_with(|| {
                let a = Arc::new(TaskWaker { id: wid });
                for _ in 0..TW_BIAS {
                    std::mem::forget(a.clone());
                }
                a
            })
            .clone()
    })
}

/// clones of the task waker still alive besides the table's own reference
/// (negative: dropped more often than cloned)
pub fn task_waker_balance(a: &Arc<TaskWaker>) -> isize {
    Arc::strong_count(a) as isize - 1 - TW_BIAS as isize
}

/// Take `H[h]` out of the table (to call it without holding the lock).
pub fn take_handle(h: usize) -> Option<Waker> {
    g(|g| g.handles.get_mut(h).and_then(|s| s.take()))
}

/// Put a handle taken with [`take_handle`] back.
pub fn put_handle(h: usize, w: Waker) {
    // the slot exists and is empty: nothing is dropped here
    let w = g(|g| match g.handles.get_mut(h) {
        Some(slot) if slot.is_none() => {
            *slot = Some(w);
            None
        }
        _ => Some(w),
    });
    // cannot happen; if it did, do not drop a waker inside `g`
    std::mem::forget(w);
}

pub fn push_handle(w: Waker) {
    g(|g| g.handles.push(Some(w)));
}

pub fn inj_acts(which: InjPoint, k: usize) -> Vec<Act> {
    g(|g| {
        let v = match which {
            InjPoint::Reg => &g.inj.reg,
            InjPoint::Mid => &g.inj.mid,
            InjPoint::Exit => &g.inj.exit,
        };
        let mut out = Vec::new();
        for (i, acts) in v {
            if *i == k {
                out.extend_from_slice(acts);
            }
        }
        out
    })
}

#[derive(Clone, Copy)]
pub enum InjPoint {
    Reg,
    Mid,
    Exit,
}
