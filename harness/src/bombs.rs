//! `fbharness --bombs <out>`: inputs of `join_all` / `try_join_all` whose destructor (or `poll`) panics.
//!
//! A panic that unwinds out of the crate is outside the Gallina model (an operation of the model
//! always returns), so these scenarios have their own oracle instead of a model trace: outputs
//! are self-validating tokens (a magic word and an id registered while the value exists), and the
//! scenario fails when
//!   * a value that is not a live token is dropped (never produced, or dropped before), or
//!   * the combinator resolves to a `Vec` with an element that is not a live token.
//! Leaks after a destructor panic are not counted (leaking is the safe outcome).
//! A second family has no panic at all but futures *without drop glue* (the history language's
//! children all have a logging destructor): there every output produced must have been dropped
//! exactly once when the combinator is gone, whatever the point at which it is dropped.
//! Memory the crate allocates is pre-filled with 0xA5 by the allocator wrapper, so an
//! uninitialised cell never looks like a token.

use crate::galloc::in_crate;
use futures_buffered::{join_all, try_join_all};
use std::cell::RefCell;
use std::collections::HashSet;
use std::future::Future;
use std::io::Write;
use std::panic::{catch_unwind, AssertUnwindSafe};
use std::pin::Pin;
use std::task::{Context, Poll, RawWaker, RawWakerVTable, Waker};

const MAGIC: u64 = 0x746f_6b65_6e21_2121;

#[derive(Default)]
struct Reg {
    next: u64,
    live: HashSet<u64>,
    bad: Vec<String>,
}

thread_local! {
    static REG: RefCell<Reg> = RefCell::new(Reg::default());
}

#[repr(C)]
pub struct BTok {
    magic: u64,
    id: u64,
}

impl BTok {
    fn new() -> BTok {
        REG.with(|r| {
            let mut r = r.borrow_mut();
            r.next += 1;
            let id = r.next;
            r.live.insert(id);
            BTok { magic: MAGIC, id }
        })
    }
    fn is_live(&self) -> bool {
        self.magic == MAGIC && REG.with(|r| r.borrow().live.contains(&self.id))
    }
}

impl Drop for BTok {
    fn drop(&mut self) {
        let (magic, id) = (self.magic, self.id);
        REG.with(|r| {
            let mut r = r.borrow_mut();
            if magic != MAGIC {
                r.bad.push(format!("a value no input produced was dropped (bytes {magic:#x} {id:#x})"));
            } else if !r.live.remove(&id) {
                r.bad.push(format!("output {id} was dropped twice"));
            }
        })
    }
}

/// Completes on poll number `ready_after + 1`; wakes itself while pending.
struct BFut {
    ready_after: usize,
    polls: usize,
    bomb: bool,
    /// panics in `poll` (once) instead of in the destructor
    poll_bomb: bool,
    fail: bool,
    done: bool,
}

impl BFut {
    fn step(&mut self, cx: &mut Context<'_>) -> bool {
        self.polls += 1;
        if self.poll_bomb && self.polls > self.ready_after {
            self.poll_bomb = false;
            self.ready_after = self.polls; // completes normally if it is ever polled again
            panic!("poll bomb");
        }
        if self.polls > self.ready_after {
            self.done = true;
            true
        } else {
            cx.waker().wake_by_ref();
            false
        }
    }
}

impl Drop for BFut {
    fn drop(&mut self) {
        // goes off when it is destroyed after completing (once; never while unwinding)
        if self.bomb && self.done && !std::thread::panicking() {
            self.bomb = false;
            panic!("bomb");
        }
    }
}

impl Future for BFut {
    type Output = BTok;
    fn poll(mut self: Pin<&mut Self>, cx: &mut Context<'_>) -> Poll<BTok> {
        if self.step(cx) {
            Poll::Ready(BTok::new())
        } else {
            Poll::Pending
        }
    }
}

struct BTry(BFut);

impl Future for BTry {
    type Output = Result<BTok, BTok>;
    fn poll(mut self: Pin<&mut Self>, cx: &mut Context<'_>) -> Poll<Result<BTok, BTok>> {
        if self.0.step(cx) {
            Poll::Ready(if self.0.fail { Err(BTok::new()) } else { Ok(BTok::new()) })
        } else {
            Poll::Pending
        }
    }
}

/// A future without drop glue (plain data, no `Drop`): `needs_drop::<Plain>()` is false, while its
/// output has a destructor.  Completes on poll number `ready_after + 1`.
struct Plain {
    ready_after: usize,
    polls: usize,
    fail: bool,
}

impl Plain {
    fn step(&mut self, cx: &mut Context<'_>) -> bool {
        self.polls += 1;
        // a pending one does not wake itself: it stays pending for the rest of the scenario
        let _ = cx;
        self.polls > self.ready_after
    }
}

struct PlainFut(Plain);
impl Future for PlainFut {
    type Output = BTok;
    fn poll(mut self: Pin<&mut Self>, cx: &mut Context<'_>) -> Poll<BTok> {
        if self.0.step(cx) { Poll::Ready(BTok::new()) } else { Poll::Pending }
    }
}

struct PlainTry(Plain);
impl Future for PlainTry {
    type Output = Result<BTok, BTok>;
    fn poll(mut self: Pin<&mut Self>, cx: &mut Context<'_>) -> Poll<Result<BTok, BTok>> {
        if self.0.step(cx) {
            Poll::Ready(if self.0.fail { Err(BTok::new()) } else { Ok(BTok::new()) })
        } else {
            Poll::Pending
        }
    }
}

/// No panic anywhere: `polls` polls, then the combinator (or what it resolved to) is dropped.
/// Every output produced must have been dropped exactly once by then.
fn run_plain(try_: bool, n: usize, mask: usize, fail_at: Option<usize>, polls: usize) -> Vec<String> {
    REG.with(|r| *r.borrow_mut() = Reg::default());
    let waker = noop_waker();
    let mut cx = Context::from_waker(&waker);
    let mk = |i: usize| Plain {
        // the inputs in `mask` complete on their first poll, the others never
        ready_after: if mask >> i & 1 == 1 { 0 } else { usize::MAX },
        polls: 0,
        fail: fail_at == Some(i),
    };
    if try_ {
        let futs: Vec<PlainTry> = (0..n).map(|i| PlainTry(mk(i))).collect();
        let mut j = Box::pin(in_crate(move || try_join_all(futs)));
        for _ in 0..polls {
            match in_crate(|| j.as_mut().poll(&mut cx)) {
                Poll::Ready(Ok(v)) => { check_vec(&v, "try_join_all"); drop(v); break; }
                Poll::Ready(Err(e)) => { check_vec(std::slice::from_ref(&e), "try_join_all (Err)"); drop(e); break; }
                Poll::Pending => {}
            }
        }
        in_crate(move || drop(j));
    } else {
        let futs: Vec<PlainFut> = (0..n).map(|i| PlainFut(mk(i))).collect();
        let mut j = Box::pin(in_crate(move || join_all(futs)));
        for _ in 0..polls {
            match in_crate(|| j.as_mut().poll(&mut cx)) {
                Poll::Ready(v) => { check_vec(&v, "join_all"); drop(v); break; }
                Poll::Pending => {}
            }
        }
        in_crate(move || drop(j));
    }
    crate::galloc::reset_depths();
    REG.with(|r| {
        let mut r = r.borrow_mut();
        let mut bad = std::mem::take(&mut r.bad);
        if !r.live.is_empty() {
            bad.push(format!("{} output(s) produced inside the crate were never dropped (leak)", r.live.len()));
        }
        bad
    })
}

fn noop_waker() -> Waker {
    fn clone(_: *const ()) -> RawWaker {
        RawWaker::new(std::ptr::null(), &VT)
    }
    fn noop(_: *const ()) {}
    static VT: RawWakerVTable = RawWakerVTable::new(clone, noop, noop, noop);
    unsafe { Waker::from_raw(RawWaker::new(std::ptr::null(), &VT)) }
}

fn mk(n: usize, bomb_at: usize, order: usize, fail_at: Option<usize>, in_poll: bool) -> Vec<BFut> {
    (0..n)
        .map(|i| BFut {
            // order 0: input i completes on poll i + 1; order 1: reversed; order 2: all at once
            ready_after: match order {
                0 => i,
                1 => n - 1 - i,
                _ => 0,
            },
            polls: 0,
            bomb: i == bomb_at && !in_poll,
            poll_bomb: i == bomb_at && in_poll,
            fail: fail_at == Some(i),
            done: false,
        })
        .collect()
}

fn check_vec(v: &[BTok], what: &str) {
    for t in v {
        if !t.is_live() {
            REG.with(|r| r.borrow_mut().bad.push(format!("{what} resolved to a Vec holding a value no input produced")));
        }
    }
}

/// One scenario; returns the violations seen.
fn run(try_: bool, n: usize, bomb_at: usize, order: usize, fail_at: Option<usize>, repoll: bool, in_poll: bool) -> Vec<String> {
    REG.with(|r| *r.borrow_mut() = Reg::default());
    let waker = noop_waker();
    let mut cx = Context::from_waker(&waker);
    let futs = mk(n, bomb_at, order, fail_at, in_poll);
    if try_ {
        let futs: Vec<BTry> = futs.into_iter().map(BTry).collect();
        let mut j = Box::pin(in_crate(move || try_join_all(futs)));
        for _ in 0..(2 * n + 6) {
            match catch_unwind(AssertUnwindSafe(|| in_crate(|| j.as_mut().poll(&mut cx)))) {
                Err(_) => {
                    if !repoll {
                        break;
                    }
                }
                Ok(Poll::Ready(Ok(v))) => {
                    check_vec(&v, "try_join_all");
                    drop(v);
                    if !repoll {
                        break;
                    }
                }
                Ok(Poll::Ready(Err(e))) => {
                    check_vec(std::slice::from_ref(&e), "try_join_all (Err)");
                    drop(e);
                    if !repoll {
                        break;
                    }
                }
                Ok(Poll::Pending) => {}
            }
        }
        let _ = catch_unwind(AssertUnwindSafe(|| in_crate(move || drop(j))));
    } else {
        let mut j = Box::pin(in_crate(move || join_all(futs)));
        for _ in 0..(2 * n + 6) {
            match catch_unwind(AssertUnwindSafe(|| in_crate(|| j.as_mut().poll(&mut cx)))) {
                Err(_) => {
                    if !repoll {
                        break;
                    }
                }
                Ok(Poll::Ready(v)) => {
                    check_vec(&v, "join_all");
                    drop(v);
                    if !repoll {
                        break;
                    }
                }
                Ok(Poll::Pending) => {}
            }
        }
        let _ = catch_unwind(AssertUnwindSafe(|| in_crate(move || drop(j))));
    }
    crate::galloc::reset_depths();
    REG.with(|r| std::mem::take(&mut r.borrow_mut().bad))
}

/// Runs every scenario; one line each: `bomb <name> ok` or `bomb <name> VIOLATION <what>`.
pub fn run_all(out_path: &str) -> bool {
    std::panic::set_hook(Box::new(|_| {}));
    let mut out = std::fs::File::create(out_path).expect("cannot create the output file");
    let mut all_ok = true;
    let mut count = 0;
    for try_ in [false, true] {
        for n in 1..=4usize {
            for bomb_at in 0..n {
                for order in 0..3usize {
                    for repoll in [false, true] {
                        let fails: Vec<Option<usize>> = if try_ {
                            let mut v = vec![None];
                            v.extend((0..n).map(Some)); // the failing input may be the bomb itself
                            v
                        } else {
                            vec![None]
                        };
                        for (fail_at, in_poll) in fails.iter().flat_map(|f| [(*f, false), (*f, true)]) {
                            let name = format!(
                                "{} n={n} bomb={bomb_at}{} order={order} fail={} repoll={}",
                                if try_ { "try_join_all" } else { "join_all" },
                                if in_poll { "(in poll)" } else { "" },
                                fail_at.map_or("-".to_string(), |i| i.to_string()),
                                repoll as u8
                            );
                            let bad = run(try_, n, bomb_at, order, fail_at, repoll, in_poll);
                            count += 1;
                            if bad.is_empty() {
                                let _ = writeln!(out, "bomb {name} ok");
                            } else {
                                all_ok = false;
                                let _ = writeln!(out, "bomb {name} VIOLATION {}", bad.join("; "));
                            }
                        }
                    }
                }
            }
        }
    }
    // futures without drop glue, no panic: early drop at every point, error path, completion
    for try_ in [false, true] {
        for n in 1..=4usize {
            for mask in 0..(1usize << n) {
                for polls in 0..=2usize {
                    let fails: Vec<Option<usize>> = if try_ {
                        let mut v = vec![None];
                        v.extend((0..n).map(Some));
                        v
                    } else {
                        vec![None]
                    };
                    for fail_at in fails {
                        let name = format!(
                            "{} plain n={n} ready={mask:#b} fail={} polls={polls}",
                            if try_ { "try_join_all" } else { "join_all" },
                            fail_at.map_or("-".to_string(), |i| i.to_string())
                        );
                        let bad = run_plain(try_, n, mask, fail_at, polls);
                        count += 1;
                        if bad.is_empty() {
                            let _ = writeln!(out, "bomb {name} ok");
                        } else {
                            all_ok = false;
                            let _ = writeln!(out, "bomb {name} VIOLATION {}", bad.join("; "));
                        }
                    }
                }
            }
        }
    }
    let _ = writeln!(out, "scenarios {count}");
    let _ = std::panic::take_hook();
    all_ok
}
