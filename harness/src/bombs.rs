//! `fbharness --bombs <out>`: inputs of `join_all` / `try_join_all` whose destructor (or `poll`) panics.
//!
//! A panic that unwinds out of the crate is outside the Gallina model (an operation of the model
//! always returns), so these scenarios have their own oracle instead of a model trace: outputs
//! are self-validating tokens (a magic word and an id registered while the value exists), and the
//! scenario fails when
//!   * a value that is not a live token is dropped (never produced, or dropped before), or
//!   * the combinator resolves to a `Vec` with an element that is not a live token.
//! Leaks after a destructor panic are not counted (leaking is the safe outcome).
//! A second family has no panic at all but futures *without drop glue* (the history language's
//! children all have a logging destructor): there every output produced must have been dropped
//! exactly once when the combinator is gone, whatever the point at which it is dropped.
//! Memory the crate allocates is pre-filled with 0xA5 by the allocator wrapper, so an
//! uninitialised cell never looks like a token.

use crate::galloc::in_crate;
use futures_buffered::{join_all, try_join_all};
use std::cell::RefCell;
use std::collections::HashSet;
use std::future::Future;
use std::io::Write;
use std::panic::{catch_unwind, AssertUnwindSafe};
use std::pin::Pin;
use std::task::{Context, Poll, RawWaker, RawWakerVTable, Waker};

const MAGIC: u64 = 0x746f_6b65_6e21_2121;

#[derive(Default)]
struct Reg {
    next: u64,
    live: HashSet<u64>,
    bad: Vec<String>,
}

thread_local! {
    static REG: RefCell<Reg> = RefCell::new(Reg::default());
}

#[repr(C)]
pub struct BTok {
    magic: u64,
    id: u64,
}

impl BTok {
    fn new() -> BTok {
        REG.with(|r| {
            let mut r = r.borrow_mut();
            r.next += 1;
            let id = r.next;
            r.live.insert(id);
            BTok { magic: MAGIC, id }
        })
    }
    fn is_live(&self) -> bool {
        self.magic == MAGIC && REG.with(|r| r.borrow().live.contains(&self.id))
    }
}

impl Drop for BTok {
    fn drop(&mut self) {
        let (magic, id) = (self.magic, self.id);
        REG.with(|r| {
            let mut r = r.borrow_mut();
            if magic != MAGIC {
                r.bad.push(format!("a value no input produced was dropped (bytes {magic:#x} {id:#x})"));
            } else if !r.live.remove(&id) {
                r.bad.push(format!("output {id} was dropped twice"));
            }
        })
    }
}

/// Completes on poll number `ready_after + 1`; wakes itself while pending.
struct BFut {
    ready_after: usize,
    polls: usize,
    bomb: bool,
    /// panics in `poll` (once) instead of in the destructor
    poll_bomb: bool,
    fail: bool,
    done: bool,
}

impl BFut {
    fn step(&mut self, cx: &mut Context<'_>) -> bool {
        self.polls += 1;
        if self.poll_bomb && self.polls > self.ready_after {
            self.poll_bomb = false;
            self.ready_after = self.polls; // completes normally if it is ever polled again
            panic!("poll bomb");
        }
        if self.polls > self.ready_after {
            self.done = true;
            true
        } else {
            cx.waker().wake_by_ref();
            false
        }
    }
}

impl Drop for BFut {
    fn drop(&mut self) {
        // goes off when it is destroyed after completing (once; never while unwinding)
        if self.bomb && self.done && !std::thread::panicking() {
            self.bomb = false;
            panic!("bomb");
        }
    }
}

impl Future for BFut {
    type Output = BTok;
    fn poll(mut self: Pin<&mut Self>, cx: &mut Context<'_>) -> Poll<BTok> {
        if self.step(cx) {
            Poll::Ready(BTok::new())
        } else {
            Poll::Pending
        }
    }
}

struct BTry(BFut);

impl Future for BTry {
    type Output = Result<BTok, BTok>;
    fn poll(mut self: Pin<&mut Self>, cx: &mut Context<'_>) -> Poll<Result<BTok, BTok>> {
        if self.0.step(cx) {
            Poll::Ready(if self.0.fail { Err(BTok::new()) } else { Ok(BTok::new()) })
        } else {
            Poll::Pending
        }
    }
}

/// A future without drop glue (plain data, no `Drop`): `needs_drop::<Plain>()` is false, while its
/// output has a destructor.  Completes on poll number `ready_after + 1`.
struct Plain {
    ready_after: usize,
    polls: usize,
    fail: bool,
}

impl Plain {
    fn step(&mut self, cx: &mut Context<'_>) -> bool {
        self.polls += 1;
        // a pending one does not wake itself: it stays pending for the rest of the scenario
        let _ = cx;
        self.polls > self.ready_after
    }
}

struct PlainFut(Plain);
impl Future for PlainFut {
    type Output = BTok;
    fn poll(mut self: Pin<&mut Self>, cx: &mut Context<'_>) -> Poll<BTok> {
        if self.0.step(cx) { Poll::Ready(BTok::new()) } else { Poll::Pending }
    }
}

struct PlainTry(Plain);
impl Future for PlainTry {
    type Output = Result<BTok, BTok>;
    fn poll(mut self: Pin<&mut Self>, cx: &mut Context<'_>) -> Poll<Result<BTok, BTok>> {
        if self.0.step(cx) {
            Poll::Ready(if self.0.fail { Err(BTok::new()) } else { Ok(BTok::new()) })
        } else {
            Poll::Pending
        }
    }
}

/// No panic anywhere: `polls` polls, then the combinator (or what it resolved to) is dropped.
/// Every output produced must have been dropped exactly once by then.
fn run_plain(try_: bool, n: usize, mask: usize, fail_at: Option<usize>, polls: usize) -> Vec<String> {
    REG.with(|r| *r.borrow_mut() = Reg::default());
    let waker = noop_waker();
    let mut cx = Context::from_waker(&waker);
    let mk = |i: usize| Plain {
        // the inputs in `mask` complete on their first poll, the others never
        ready_after: if mask >> i & 1 == 1 { 0 } else { usize::MAX },
        polls: 0,
        fail: fail_at == Some(i),
    };
    if try_ {
        let futs: Vec<PlainTry> = (0..n).map(|i| PlainTry(mk(i))).collect();
        let mut j = Box::pin(in_crate(move || try_join_all(futs)));
        for _ in 0..polls {
            match in_crate(|| j.as_mut().poll(&mut cx)) {
                Poll::Ready(Ok(v)) => { check_vec(&v, "try_join_all"); drop(v); break; }
                Poll::Ready(Err(e)) => { check_vec(std::slice::from_ref(&e), "try_join_all (Err)"); drop(e); break; }
                Poll::Pending => {}
            }
        }
        in_crate(move || drop(j));
    } else {
        let futs: Vec<PlainFut> = (0..n).map(|i| PlainFut(mk(i))).collect();
        let mut j = Box::pin(in_crate(move || join_all(futs)));
        for _ in 0..polls {
            match in_crate(|| j.as_mut().poll(&mut cx)) {
                Poll::Ready(v) => { check_vec(&v, "join_all"); drop(v); break; }
                Poll::Pending => {}
            }
        }
        in_crate(move || drop(j));
    }
    crate::galloc::reset_depths();
    REG.with(|r| {
        let mut r = r.borrow_mut();
        let mut bad = std::mem::take(&mut r.bad);
        if !r.live.is_empty() {
            bad.push(format!("{} output(s) produced inside the crate were never dropped (leak)", r.live.len()));
        }
        bad
    })
}

// ------------------------------------------------------------------------------------
// streams of futures (FuturesUnorderedBounded, FuturesUnordered) and merges: a child whose
// destructor panics when it is destroyed after completing; the oracle is the child's own record:
// it is never polled after it completed and never destroyed twice

#[derive(Default, Clone, Copy)]
struct Life {
    done: bool,
    dropped: bool,
}

thread_local! {
    static LIVES: RefCell<Vec<Life>> = RefCell::new(Vec::new());
    static KEPT: RefCell<Vec<Waker>> = RefCell::new(Vec::new());
}

struct SFut {
    id: usize,
    ready_after: usize,
    polls: usize,
    bomb: bool,
}

impl SFut {
    /// one poll; `true` = completes now
    fn step(&mut self, cx: &mut Context<'_>) -> bool {
        let id = self.id;
        let again = LIVES.with(|l| l.borrow()[id].done || l.borrow()[id].dropped);
        if again {
            REG.with(|r| r.borrow_mut().bad.push(format!("child {id} was polled again after it had completed / been destroyed")));
            return false;
        }
        // keep a clone of the waker: the scenario invokes it later, when it is stale
        KEPT.with(|k| k.borrow_mut().push(cx.waker().clone()));
        self.polls += 1;
        if self.polls > self.ready_after {
            LIVES.with(|l| l.borrow_mut()[id].done = true);
            true
        } else {
            false
        }
    }
}

impl Drop for SFut {
    fn drop(&mut self) {
        let id = self.id;
        let (done, twice) = LIVES.with(|l| {
            let mut l = l.borrow_mut();
            let t = l[id].dropped;
            l[id].dropped = true;
            (l[id].done, t)
        });
        if twice {
            REG.with(|r| r.borrow_mut().bad.push(format!("child {id} was destroyed twice")));
            return;
        }
        if self.bomb && done && !std::thread::panicking() {
            panic!("bomb");
        }
    }
}

impl Future for SFut {
    type Output = BTok;
    fn poll(mut self: Pin<&mut Self>, cx: &mut Context<'_>) -> Poll<BTok> {
        if self.step(cx) { Poll::Ready(BTok::new()) } else { Poll::Pending }
    }
}

/// a source: ends (`None`) on poll number `ready_after + 1`
struct SSrc(SFut);
impl futures_core::Stream for SSrc {
    type Item = BTok;
    fn poll_next(mut self: Pin<&mut Self>, cx: &mut Context<'_>) -> Poll<Option<BTok>> {
        if self.0.step(cx) { Poll::Ready(None) } else { Poll::Pending }
    }
}

fn mk_s(n: usize, bomb_at: usize, mask: usize) -> Vec<SFut> {
    LIVES.with(|l| *l.borrow_mut() = vec![Life::default(); n]);
    KEPT.with(|k| k.borrow_mut().clear());
    (0..n)
        .map(|i| SFut { id: i, ready_after: if mask >> i & 1 == 1 { 0 } else { 2 }, polls: 0, bomb: i == bomb_at })
        .collect()
}

/// kind 0: FuturesUnorderedBounded, 1: FuturesUnordered, 2: MergeBounded
fn run_stream(kind: usize, n: usize, bomb_at: usize, mask: usize) -> Vec<String> {
    use futures_buffered::{FuturesUnordered, FuturesUnorderedBounded, MergeBounded};
    use futures_core::Stream;
    REG.with(|r| *r.borrow_mut() = Reg::default());
    let waker = noop_waker();
    let mut cx = Context::from_waker(&waker);
    let futs = mk_s(n, bomb_at, mask);
    // poll a few times, waking every stale waker in between; panics are caught
    macro_rules! drive {
        ($c:expr) => {{
            let mut c = Box::pin($c);
            for _ in 0..(n + 4) {
                let r = catch_unwind(AssertUnwindSafe(|| in_crate(|| c.as_mut().poll_next(&mut cx))));
                if let Ok(Poll::Ready(Some(t))) = r {
                    drop(t);
                }
                let ws: Vec<Waker> = KEPT.with(|k| k.borrow().clone());
                for w in &ws {
                    let _ = catch_unwind(AssertUnwindSafe(|| w.wake_by_ref()));
                }
            }
            let _ = catch_unwind(AssertUnwindSafe(|| in_crate(move || drop(c))));
        }};
    }
    match kind {
        0 => {
            let mut q = in_crate(|| FuturesUnorderedBounded::new(n));
            for f in futs {
                in_crate(|| q.push(f));
            }
            drive!(q)
        }
        1 => {
            let mut q = in_crate(|| FuturesUnordered::with_capacity(1));
            for f in futs {
                in_crate(|| q.push(f));
            }
            drive!(q)
        }
        _ => {
            let srcs: Vec<SSrc> = futs.into_iter().map(SSrc).collect();
            let q: MergeBounded<SSrc> = in_crate(move || srcs.into_iter().collect());
            drive!(q)
        }
    }
    KEPT.with(|k| {
        let ws = std::mem::take(&mut *k.borrow_mut());
        let _ = catch_unwind(AssertUnwindSafe(move || drop(ws)));
    });
    crate::galloc::reset_depths();
    REG.with(|r| std::mem::take(&mut r.borrow_mut().bad))
}

fn noop_waker() -> Waker {
    fn clone(_: *const ()) -> RawWaker {
        RawWaker::new(std::ptr::null(), &VT)
    }
    fn noop(_: *const ()) {}
    static VT: RawWakerVTable = RawWakerVTable::new(clone, noop, noop, noop);
    unsafe { Waker::from_raw(RawWaker::new(std::ptr::null(), &VT)) }
}

fn mk(n: usize, bomb_at: usize, order: usize, fail_at: Option<usize>, in_poll: bool) -> Vec<BFut> {
    (0..n)
        .map(|i| BFut {
            // order 0: input i completes on poll i + 1; order 1: reversed; order 2: all at once
            ready_after: match order {
                0 => i,
                1 => n - 1 - i,
                _ => 0,
            },
            polls: 0,
            bomb: i == bomb_at && !in_poll,
            poll_bomb: i == bomb_at && in_poll,
            fail: fail_at == Some(i),
            done: false,
        })
        .collect()
}

fn check_vec(v: &[BTok], what: &str) {
    for t in v {
        if !t.is_live() {
            REG.with(|r| r.borrow_mut().bad.push(format!("{what} resolved to a Vec holding a value no input produced")));
        }
    }
}

/// One scenario; returns the violations seen.
fn run(try_: bool, n: usize, bomb_at: usize, order: usize, fail_at: Option<usize>, repoll: bool, in_poll: bool) -> Vec<String> {
    REG.with(|r| *r.borrow_mut() = Reg::default());
    let waker = noop_waker();
    let mut cx = Context::from_waker(&waker);
    let futs = mk(n, bomb_at, order, fail_at, in_poll);
    if try_ {
        let futs: Vec<BTry> = futs.into_iter().map(BTry).collect();
        let mut j = Box::pin(in_crate(move || try_join_all(futs)));
        for _ in 0..(2 * n + 6) {
            match catch_unwind(AssertUnwindSafe(|| in_crate(|| j.as_mut().poll(&mut cx)))) {
                Err(_) => {
                    if !repoll {
                        break;
                    }
                }
                Ok(Poll::Ready(Ok(v))) => {
                    check_vec(&v, "try_join_all");
                    drop(v);
                    if !repoll {
                        break;
                    }
                }
                Ok(Poll::Ready(Err(e))) => {
                    check_vec(std::slice::from_ref(&e), "try_join_all (Err)");
                    drop(e);
                    if !repoll {
                        break;
                    }
                }
                Ok(Poll::Pending) => {}
            }
        }
        let _ = catch_unwind(AssertUnwindSafe(|| in_crate(move || drop(j))));
    } else {
        let mut j = Box::pin(in_crate(move || join_all(futs)));
        for _ in 0..(2 * n + 6) {
            match catch_unwind(AssertUnwindSafe(|| in_crate(|| j.as_mut().poll(&mut cx)))) {
                Err(_) => {
                    if !repoll {
                        break;
                    }
                }
                Ok(Poll::Ready(v)) => {
                    check_vec(&v, "join_all");
                    drop(v);
                    if !repoll {
                        break;
                    }
                }
                Ok(Poll::Pending) => {}
            }
        }
        let _ = catch_unwind(AssertUnwindSafe(|| in_crate(move || drop(j))));
    }
    crate::galloc::reset_depths();
    REG.with(|r| std::mem::take(&mut r.borrow_mut().bad))
}

/// Runs every scenario; one line each: `bomb <name> ok` or `bomb <name> VIOLATION <what>`.
pub fn run_all(out_path: &str) -> bool {
    std::panic::set_hook(Box::new(|_| {}));
    let mut out = std::fs::File::create(out_path).expect("cannot create the output file");
    let mut all_ok = true;
    let mut count = 0;
    for try_ in [false, true] {
        for n in 1..=4usize {
            for bomb_at in 0..n {
                for order in 0..3usize {
                    for repoll in [false, true] {
                        let fails: Vec<Option<usize>> = if try_ {
                            let mut v = vec![None];
                            v.extend((0..n).map(Some)); // the failing input may be the bomb itself
                            v
                        } else {
                            vec![None]
                        };
                        for (fail_at, in_poll) in fails.iter().flat_map(|f| [(*f, false), (*f, true)]) {
                            let name = format!(
                                "{} n={n} bomb={bomb_at}{} order={order} fail={} repoll={}",
                                if try_ { "try_join_all" } else { "join_all" },
                                if in_poll { "(in poll)" } else { "" },
                                fail_at.map_or("-".to_string(), |i| i.to_string()),
                                repoll as u8
                            );
                            let bad = run(try_, n, bomb_at, order, fail_at, repoll, in_poll);
                            count += 1;
                            if bad.is_empty() {
                                let _ = writeln!(out, "bomb {name} ok");
                            } else {
                                all_ok = false;
                                let _ = writeln!(out, "bomb {name} VIOLATION {}", bad.join("; "));
                            }
                        }
                    }
                }
            }
        }
    }
    // futures without drop glue, no panic: early drop at every point, error path, completion
    for try_ in [false, true] {
        for n in 1..=4usize {
            for mask in 0..(1usize << n) {
                for polls in 0..=2usize {
                    let fails: Vec<Option<usize>> = if try_ {
                        let mut v = vec![None];
                        v.extend((0..n).map(Some));
                        v
                    } else {
                        vec![None]
                    };
                    for fail_at in fails {
                        let name = format!(
                            "{} plain n={n} ready={mask:#b} fail={} polls={polls}",
                            if try_ { "try_join_all" } else { "join_all" },
                            fail_at.map_or("-".to_string(), |i| i.to_string())
                        );
                        let bad = run_plain(try_, n, mask, fail_at, polls);
                        count += 1;
                        if bad.is_empty() {
                            let _ = writeln!(out, "bomb {name} ok");
                        } else {
                            all_ok = false;
                            let _ = writeln!(out, "bomb {name} VIOLATION {}", bad.join("; "));
                        }
                    }
                }
            }
        }
    }
    // streams and merges with a child whose destructor panics
    for kind in 0..3usize {
        for n in 1..=3usize {
            for bomb_at in 0..n {
                for mask in 0..(1usize << n) {
                    let name = format!(
                        "{} n={n} bomb={bomb_at} ready={mask:#b}",
                        ["FuturesUnorderedBounded", "FuturesUnordered", "MergeBounded"][kind]
                    );
                    let bad = run_stream(kind, n, bomb_at, mask);
                    count += 1;
                    if bad.is_empty() {
                        let _ = writeln!(out, "bomb {name} ok");
                    } else {
                        all_ok = false;
                        let _ = writeln!(out, "bomb {name} VIOLATION {}", bad.join("; "));
                    }
                }
            }
        }
    }
    let _ = writeln!(out, "scenarios {count}");
    let _ = std::panic::take_hook();
    all_ok
}
