//! The history interpreter: builds the collection, runs the ops, logs the `ret` / `obs` /
//! `alloc` lines and the end-of-history diagnostics.

use crate::child::{fmt_tok, perform, Child, Fut, KTok, KTry, KUnit, Runaway, Src, Tok, TryFut, USrc, UnitFut, Upstream};
use crate::galloc::{
    in_crate, release_quarantine, reset_depths, waker_call, CbGuard, ALLOC_COUNT, DROPPING_OUT,
    PANICKING, POLLS_IN_OP,
};
use crate::logf;
use crate::script::{Op, Script, Spec, Ty, UpStep};
use crate::child::set_accepted;
use crate::state::{g, take_handle, task_waker, task_waker_balance, UpState};
use futures_buffered::{
    join_all, try_join_all, BufferUnordered, BufferedOrdered, BufferedStreamExt,
    BufferedTryStreamExt, FuturesOrdered, FuturesOrderedBounded, FuturesUnordered,
    FuturesUnorderedBounded, JoinAll, MergeBounded, MergeUnbounded, TryBufferUnordered,
    TryBufferedOrdered, TryJoinAll,
};
use futures_core::{FusedFuture, FusedStream, Stream};
use std::fmt::Write as _;
use std::future::Future;
use std::panic::{catch_unwind, AssertUnwindSafe};
use std::pin::Pin;
use std::sync::atomic::Ordering::Relaxed;
use std::task::{Context, Poll, Waker};

pub enum Coll {
    Fub(FuturesUnorderedBounded<Fut>),
    Fu(FuturesUnordered<Fut>),
    Mb(MergeBounded<Src>),
    Mu(MergeUnbounded<USrc>),
    Fob(FuturesOrderedBounded<Fut>),
    Fo(FuturesOrdered<Fut>),
    Bu(Pin<Box<BufferUnordered<Upstream<KTok>>>>),
    Bo(Pin<Box<BufferedOrdered<Upstream<KTok>>>>),
    Tbu(Pin<Box<TryBufferUnordered<Upstream<KTry>>>>),
    Tbo(Pin<Box<TryBufferedOrdered<Upstream<KTry>>>>),
    /// `ForEachConcurrent` is not nameable from outside the crate
    Fec(Pin<Box<dyn FusedFuture<Output = ()>>>),
    Ja(JoinAll<Fut>),
    /// `join_all` over futures with a zero-sized output (`zst=1`); the ids of the inputs in order
    JaUnit(JoinAll<UnitFut>, Vec<u32>),
    Tja(TryJoinAll<TryFut>),
}

/// the closure handed to `for_each_concurrent`: maps a child to itself
fn fec_f(c: UnitFut) -> UnitFut {
    let _cb = CbGuard::enter();
    c
}

/// everything the lines before `build` have declared
pub struct Decl {
    pub spec: Spec,
    pub inits: Vec<(u32, Script)>,
    pub up: Vec<UpStep>,
}

pub struct Hist {
    /// `Box` so that the collection stays put between ops and `move` can give it a really
    /// different address
    coll: Box<Option<Coll>>,
    ty: Ty,
    pub dead: bool,
    dropped: bool,
    pub next_op: usize,
}

enum Outcome {
    Done,
    Panicked,
    Runaway,
}

/// Run `f` as one op: counters reset, panics caught, `ret panic` / `ret runaway` and the
/// final `alloc` line logged.
fn guarded(f: impl FnOnce()) -> Outcome {
    ALLOC_COUNT.store(0, Relaxed);
    POLLS_IN_OP.store(0, Relaxed);
    PANICKING.store(false, Relaxed);
    g(|g| {
        g.reg_count = 0;
        g.pop_count = 0;
    });
    let r = catch_unwind(AssertUnwindSafe(f));
    let out = match r {
        Ok(()) => Outcome::Done,
        Err(payload) => {
            reset_depths();
            let runaway = payload.is::<Runaway>();
            let iter_bomb = payload.is::<IterBomb>();
            // a payload is a `Box<dyn Any>`; dropping it must not be attributed to anyone
            drop(payload);
            if iter_bomb {
                // the harness's own iterator panicked after its last element (`#!extendp`): for the
                // trace the call is over, every element has been reported
                Outcome::Done
            } else if runaway {
                logf!("ret runaway");
                Outcome::Runaway
            } else {
                logf!("ret panic");
                Outcome::Panicked
            }
        }
    };
    PANICKING.store(false, Relaxed);
    // a write into a waker block the crate had already released (kind 9)
    while let Some((base, _off)) = crate::galloc::poison_damage() {
        let b = g(|g| g.block_containing(base));
        match b {
            Some(b) => logf!("vtbad 9 {b}"),
            None => logf!("vtbad 9 ?"),
        }
    }
    let n = ALLOC_COUNT.swap(0, Relaxed);
    if n > 0 {
        logf!("alloc {n}");
    }
    out
}

/// Boundary between two elements of one `extend` call: the trace shows them as separate `push`
/// ops, so the per-op counters are closed and reset here as `guarded` does at the end of an op.
fn subop_boundary() {
    let n = ALLOC_COUNT.swap(0, Relaxed);
    if n > 0 {
        logf!("alloc {n}");
    }
    POLLS_IN_OP.store(0, Relaxed);
    g(|g| {
        g.reg_count = 0;
        g.pop_count = 0;
    });
}

/// One buffered `push` line that is going to be an element of an `extend` call.
pub struct ExtItem {
    pub k: usize,
    pub line: String,
    pub cid: u32,
    pub script: Script,
}

/// payload of the panic of an `#!extendp` iterator
pub struct IterBomb;

struct ExtState {
    /// panic instead of returning `None` when the elements are used up
    bomb: bool,
    queue: std::collections::VecDeque<ExtItem>,
    /// registry index of the element handed out last (accepted once the next one is asked for
    /// or the call returns)
    prev: Option<usize>,
}

/// The iterator given to `Extend::extend`: creates the children lazily and writes the op line
/// of each element when the crate asks for it.
struct MarkIter {
    st: std::rc::Rc<std::cell::RefCell<ExtState>>,
}

impl Iterator for MarkIter {
    type Item = Fut;
    fn next(&mut self) -> Option<Fut> {
        let _cb = CbGuard::enter();
        let mut st = self.st.borrow_mut();
        if let Some(idx) = st.prev.take() {
            set_accepted(idx);
            logf!("ret ok");
            subop_boundary();
        }
        let it = match st.queue.pop_front() {
            Some(it) => it,
            None if st.bomb => {
                drop(st);
                std::panic::panic_any(IterBomb)
            }
            None => return None,
        };
        logf!("op {} {}", it.k, it.line);
        let f = Fut::new(it.cid, it.script, false);
        st.prev = Some(f.idx());
        Some(f)
    }
}

fn drop_out<T>(v: T) {
    DROPPING_OUT.store(true, Relaxed);
    drop(v);
    DROPPING_OUT.store(false, Relaxed);
}

fn ret_stream_tok(p: Poll<Option<Tok>>) {
    match p {
        Poll::Pending => logf!("ret pending"),
        Poll::Ready(None) => logf!("ret none"),
        Poll::Ready(Some(t)) => {
            logf!("ret item {t}");
            drop_out(t);
        }
    }
}

fn ret_stream_res(p: Poll<Option<Result<Tok, Tok>>>) {
    ret_stream_tok(p.map(|o| {
        o.map(|r| match r {
            Ok(t) | Err(t) => t,
        })
    }))
}

fn tok_list(v: &[Tok]) -> String {
    if v.is_empty() {
        return "-".to_string();
    }
    let mut s = String::new();
    for (i, t) in v.iter().enumerate() {
        if i > 0 {
            s.push(',');
        }
        let _ = write!(s, "{t}");
    }
    s
}

fn drop_out_vec(v: Vec<Tok>) {
    DROPPING_OUT.store(true, Relaxed);
    for t in v {
        drop(t);
    }
    DROPPING_OUT.store(false, Relaxed);
}

fn fmt_hint(h: (usize, Option<usize>)) -> String {
    match h.1 {
        Some(hi) => format!("{},{}", h.0, hi),
        None => format!("{},none", h.0),
    }
}

#[derive(Default)]
struct Obs {
    len: Option<usize>,
    empty: Option<bool>,
    cap: Option<usize>,
    hint: Option<(usize, Option<usize>)>,
    term: Option<bool>,
}

impl Obs {
    fn log(&self) {
        let num = |v: Option<usize>| v.map_or("-".to_string(), |n| n.to_string());
        let flag = |v: Option<bool>| v.map_or("-", |b| if b { "1" } else { "0" });
        logf!(
            "obs len={} empty={} cap={} hint={} term={}",
            num(self.len),
            flag(self.empty),
            num(self.cap),
            self.hint.map_or("-".to_string(), fmt_hint),
            flag(self.term)
        );
    }
}

fn param_usize(spec: &Spec, k: &str) -> Result<Option<usize>, String> {
    Ok(spec.num(k)?.map(|v| v as usize))
}

/// Check the parameters of a `new` line (so that `build` itself cannot fail on syntax).
pub fn check_spec(spec: &Spec) -> Result<(), String> {
    for k in ["cap", "n", "seed", "hlo", "ihint"] {
        spec.num(k)?;
    }
    if let Some(v) = spec.params.get("hhi") {
        if v != "none" {
            spec.num("hhi")?;
        }
    }
    match spec.ty {
        Ty::Fub | Ty::Fob => {
            if !spec.flag("iter") && spec.num("cap")?.is_none() {
                return Err("FUB / FOB need cap=N or iter=1".into());
            }
        }
        Ty::Bu | Ty::Bo | Ty::Tbu | Ty::Tbo | Ty::Fec => {
            if spec.num("n")?.is_none() {
                return Err("adapters need n=N".into());
            }
        }
        _ => {}
    }
    Ok(())
}

impl Hist {
    /// `build` (op 0).
    pub fn build(decl: Decl) -> Hist {
        let ty = decl.spec.ty;
        let mut h = Hist {
            coll: Box::new(None),
            ty,
            dead: false,
            dropped: false,
            next_op: 1,
        };
        logf!("op 0 build");
        let slot = &mut *h.coll;
        let out = guarded(|| {
            *slot = Some(construct(decl));
        });
        if !matches!(out, Outcome::Done) {
            h.dead = true;
        }
        h
    }

    fn mark_dead(&mut self) {
        self.dead = true;
        // whatever state the collection is in, it is never touched again
        std::mem::forget(self.coll.take());
    }

    /// One op line (already echoed as `op <k> ...` by the caller).
    pub fn run_op(&mut self, op: Op) {
        match op {
            Op::Env(act) => {
                if !matches!(guarded(|| perform(act, None)), Outcome::Done) {
                    self.mark_dead();
                }
                return;
            }
            Op::Cleanup => {
                if !matches!(guarded(drop_all_handles), Outcome::Done) {
                    self.mark_dead();
                }
                return;
            }
            _ => {}
        }
        if self.dropped || self.coll.is_none() {
            return;
        }
        match op {
            Op::Push { cid, script, front } => {
                let coll = (*self.coll).as_mut().unwrap();
                if !supports_push(coll, front) {
                    return;
                }
                match guarded(|| {
                    let idx = push(coll, cid, script, front);
                    set_accepted(idx);
                    logf!("ret ok");
                }) {
                    // a refused `push` panics and leaves the collection usable
                    Outcome::Done | Outcome::Panicked => {}
                    Outcome::Runaway => self.mark_dead(),
                }
            }
            Op::TryPush { cid, script, front } => {
                let coll = (*self.coll).as_mut().unwrap();
                if !supports_try_push(coll, front) {
                    return;
                }
                if !matches!(
                    guarded(|| try_push(coll, cid, script, front)),
                    Outcome::Done
                ) {
                    self.mark_dead();
                }
            }
            Op::Poll { wid, inj } => {
                let coll = (*self.coll).as_mut().unwrap();
                let arc = task_waker(wid);
                let waker = Waker::from(arc);
                g(|g| g.inj = inj);
                let out = guarded(|| poll(coll, &waker));
                let old = g(|g| std::mem::take(&mut g.inj));
                drop(old);
                drop(waker);
                if !matches!(out, Outcome::Done) {
                    self.mark_dead();
                }
            }
            Op::Obs => {
                let coll = (*self.coll).as_ref().unwrap();
                if !matches!(guarded(|| observe(coll).log()), Outcome::Done) {
                    self.mark_dead();
                }
            }
            Op::Move => {
                let is_adapter = self.ty.is_adapter();
                if !is_adapter {
                    // allocate the new home first: the two addresses are distinct
                    let mut fresh: Box<Option<Coll>> = Box::new(None);
                    *fresh = self.coll.take();
                    let old = std::mem::replace(&mut self.coll, fresh);
                    drop(old); // holds `None`
                }
            }
            Op::DropColl => {
                let c = self.coll.take();
                self.dropped = true;
                if !matches!(guarded(move || in_crate(move || drop(c))), Outcome::Done) {
                    self.dead = true;
                }
            }
            Op::Env(_) | Op::Cleanup => unreachable!(),
        }
    }

    /// can the buffered plain pushes go through `Extend::extend`?
    pub fn supports_extend(&self) -> bool {
        !self.dead && !self.dropped && matches!(&*self.coll, Some(Coll::Fob(_) | Coll::Fo(_)))
    }

    /// `#!extend N`: the buffered `push` lines are the elements of one `extend` call (a panic of
    /// `push_back` inside it ends that call; what is left goes into another one)
    pub fn run_extend(&mut self, items: Vec<ExtItem>, bomb: bool) {
        let mut queue: std::collections::VecDeque<ExtItem> = items.into();
        while !queue.is_empty() && !self.dead {
            let st = std::rc::Rc::new(std::cell::RefCell::new(ExtState { bomb, queue, prev: None }));
            let st2 = st.clone();
            let st3 = st.clone();
            let coll = (*self.coll).as_mut().unwrap();
            let out = guarded(move || {
                let it = MarkIter { st: st2 };
                match coll {
                    Coll::Fob(c) => in_crate(move || c.extend(it)),
                    Coll::Fo(c) => in_crate(move || c.extend(it)),
                    _ => unreachable!("checked by supports_extend"),
                }
                if let Some(idx) = st3.borrow_mut().prev.take() {
                    set_accepted(idx);
                    logf!("ret ok");
                }
            });
            let mut b = st.borrow_mut();
            b.prev = None;
            queue = std::mem::take(&mut b.queue);
            drop(b);
            match out {
                Outcome::Done | Outcome::Panicked => {}
                Outcome::Runaway => self.mark_dead(),
            }
        }
    }

    /// `endhist`: implicit drop of what is left, leak diagnostics, reset of the globals.
    pub fn finish(mut self) {
        if !self.dead {
            let k = self.next_op;
            let mark = g(|g| {
                g.logf(format_args!("op {k} endhist"));
                g.out.len()
            });
            let c = self.coll.take();
            let out = guarded(move || {
                if c.is_some() {
                    in_crate(move || drop(c));
                }
                drop_all_handles();
            });
            if matches!(out, Outcome::Done) {
                diagnostics();
            } else {
                self.dead = true;
            }
            // nothing happened: no pseudo-op
            g(|g| {
                if g.out.len() == mark {
                    let hdr = format!("op {k} endhist\n");
                    let n = g.out.len() - hdr.len();
                    g.out.truncate(n);
                }
            });
        }
        reset_history(self.dead);
    }
}

/// history without a `build` line, or end of a dead one
pub fn reset_history(dead: bool) {
    // take everything out first, drop outside the lock
    let (handles, wakers, children, toks, blocks, up, inj) = g(|g| {
        g.suppress = true;
        (
            std::mem::take(&mut g.handles),
            std::mem::take(&mut g.wakers),
            std::mem::take(&mut g.children),
            std::mem::take(&mut g.toks),
            std::mem::take(&mut g.blocks),
            std::mem::replace(&mut g.up, UpState::new()),
            std::mem::take(&mut g.inj),
        )
    });
    if dead {
        // the crate's state may be anything: never call into it again
        std::mem::forget(handles);
    } else {
        // all `None` after `drop_all_handles`
        drop(handles);
    }
    drop((wakers, children, toks, blocks, up, inj));
    release_quarantine();
    reset_depths();
    g(|g| g.suppress = false);
}

fn drop_all_handles() {
    let n = g(|g| g.handles.len());
    for h in 0..n {
        if let Some(w) = take_handle(h) {
            waker_call(move || drop(w));
        }
    }
}

fn diagnostics() {
    // collect under the lock, nothing here drops anything
    let wakers: Vec<(u32, isize)> = g(|g| {
        g.wakers
            .iter()
            .map(|(wid, a)| (*wid, task_waker_balance(a)))
            .collect()
    });
    g(|g| {
        let mut lines = String::new();
        for (b, blk) in g.blocks.iter().enumerate() {
            if blk.live {
                let _ = writeln!(lines, "leak blk {b}");
            }
        }
        for c in &g.children {
            if c.accepted && !c.dropped {
                let _ = writeln!(lines, "leak child {}", c.cid);
            }
        }
        for t in &g.toks {
            lines.push_str("leak tok ");
            let _ = fmt_tok(&mut lines, t.0, t.1, t.2);
            lines.push('\n');
        }
        for (wid, n) in &wakers {
            if *n != 0 {
                let _ = writeln!(lines, "twbal {wid} {n}");
            }
        }
        if !g.suppress {
            g.out.push_str(&lines);
        }
    });
}

// ------------------------------------------------------------------------------------
// construction

fn make_inits<T>(inits: Vec<(u32, Script)>, mk: impl Fn(u32, Script, bool) -> T) -> Vec<T> {
    // `init` children are accepted before the constructor is called
    inits.into_iter().map(|(cid, s)| mk(cid, s, true)).collect()
}

fn construct(decl: Decl) -> Coll {
    let Decl { spec, inits, up } = decl;
    let cap = param_usize(&spec, "cap").unwrap_or(None);
    let n = param_usize(&spec, "n").unwrap_or(None).unwrap_or(0);
    let seed = param_usize(&spec, "seed").unwrap_or(None);
    let use_iter = spec.flag("iter");
    // `lazy=1`: hand the constructor an iterator whose `size_hint` is `(0, Some(n))` instead of a Vec
    let lazy = spec.flag("lazy") || spec.params.contains_key("ihint");
    // what the iterator claims: `lazy=1` -> (0, Some(n)) like a filter iterator; `ihint=K` -> (K, Some(K)),
    // whatever the number of elements really is (an iterator may lie in its size_hint)
    let hint: (usize, Option<usize>) = match param_usize(&spec, "ihint").unwrap_or(None) {
        Some(k) => (k, Some(k)),
        None => (0, Some(inits.len())),
    };
    let use_new = spec.flag("new");
    let no_inits = inits.is_empty();

    if spec.ty.is_adapter() {
        let hlo = param_usize(&spec, "hlo").unwrap_or(None).unwrap_or(0);
        let hhi = match spec.params.get("hhi").map(|s| s.as_str()) {
            Some("none") => None,
            _ => Some(param_usize(&spec, "hhi").unwrap_or(None).unwrap_or(0)),
        };
        let is_try = matches!(spec.ty, Ty::Tbu | Ty::Tbo);
        g(|g| {
            g.up = UpState {
                script: up,
                pc: 0,
                ended: false,
                items_made: 0,
                addr: 0,
                hlo,
                hhi,
                is_try,
            }
        });
    }

    match spec.ty {
        Ty::Fub => {
            if use_iter {
                let v = make_inits(inits, Fut::new);
                Coll::Fub(in_crate(move || if lazy { FuturesUnorderedBounded::from_iter(Hinted { inner: v.into_iter(), hint }) } else { FuturesUnorderedBounded::from_iter(v) }))
            } else {
                let cap = cap.unwrap_or(0);
                Coll::Fub(in_crate(|| FuturesUnorderedBounded::new(cap)))
            }
        }
        Ty::Fu => {
            if use_iter {
                let v = make_inits(inits, Fut::new);
                Coll::Fu(in_crate(move || if lazy { FuturesUnordered::from_iter(Hinted { inner: v.into_iter(), hint }) } else { FuturesUnordered::from_iter(v) }))
            } else if use_new || cap.is_none() {
                Coll::Fu(in_crate(FuturesUnordered::new))
            } else {
                let cap = cap.unwrap_or(0);
                Coll::Fu(in_crate(|| FuturesUnordered::with_capacity(cap)))
            }
        }
        Ty::Mb => {
            let v = make_inits(inits, Src::new);
            Coll::Mb(in_crate(move || if lazy { MergeBounded::from_iter(Hinted { inner: v.into_iter(), hint }) } else { MergeBounded::from_iter(v) }))
        }
        Ty::Mu => {
            if use_iter {
                let v = make_inits(inits, USrc::new);
                Coll::Mu(in_crate(move || if lazy { MergeUnbounded::from_iter(Hinted { inner: v.into_iter(), hint }) } else { MergeUnbounded::from_iter(v) }))
            } else if use_new || cap.is_none() {
                Coll::Mu(in_crate(MergeUnbounded::new))
            } else {
                let cap = cap.unwrap_or(0);
                Coll::Mu(in_crate(|| MergeUnbounded::verif_with_capacity(cap)))
            }
        }
        Ty::Fob => {
            let mut c = if use_iter {
                let v = make_inits(inits, Fut::new);
                in_crate(move || if lazy { FuturesOrderedBounded::from_iter(Hinted { inner: v.into_iter(), hint }) } else { FuturesOrderedBounded::from_iter(v) })
            } else {
                let cap = cap.unwrap_or(0);
                in_crate(|| FuturesOrderedBounded::new(cap))
            };
            if let Some(v) = seed {
                if !use_iter || no_inits {
                    in_crate(|| c.verif_seed_indices(v));
                }
            }
            Coll::Fob(c)
        }
        Ty::Fo => {
            let mut c = if use_iter {
                let v = make_inits(inits, Fut::new);
                in_crate(move || if lazy { FuturesOrdered::from_iter(Hinted { inner: v.into_iter(), hint }) } else { FuturesOrdered::from_iter(v) })
            } else if use_new || cap.is_none() {
                in_crate(FuturesOrdered::new)
            } else {
                let cap = cap.unwrap_or(0);
                in_crate(|| FuturesOrdered::with_capacity(cap))
            };
            if let Some(v) = seed {
                if !use_iter || no_inits {
                    in_crate(|| c.verif_seed_indices(v));
                }
            }
            Coll::Fo(c)
        }
        Ty::Bu => {
            let up = Upstream::<KTok>::new();
            let a = in_crate(move || up.buffered_unordered(n));
            Coll::Bu(Box::pin(a))
        }
        Ty::Bo => {
            let up = Upstream::<KTok>::new();
            let a = in_crate(move || up.buffered_ordered(n));
            Coll::Bo(Box::pin(a))
        }
        Ty::Tbu => {
            let up = Upstream::<KTry>::new();
            let a = in_crate(move || up.try_buffered_unordered(n));
            Coll::Tbu(Box::pin(a))
        }
        Ty::Tbo => {
            let up = Upstream::<KTry>::new();
            let a = in_crate(move || up.try_buffered_ordered(n));
            Coll::Tbo(Box::pin(a))
        }
        Ty::Fec => {
            let up = Upstream::<KUnit>::new();
            let a = in_crate(move || {
                up.for_each_concurrent(n, fec_f as fn(UnitFut) -> UnitFut)
            });
            Coll::Fec(Box::pin(a))
        }
        Ty::Ja if spec.flag("zst") => {
            let cids: Vec<u32> = inits.iter().map(|(c, _)| *c).collect();
            let v = make_inits(inits, UnitFut::new);
            Coll::JaUnit(in_crate(move || if lazy { join_all(Hinted { inner: v.into_iter(), hint }) } else { join_all(v) }), cids)
        }
        Ty::Ja => {
            let v = make_inits(inits, Fut::new);
            Coll::Ja(in_crate(move || if lazy { join_all(Hinted { inner: v.into_iter(), hint }) } else { join_all(v) }))
        }
        Ty::Tja => {
            let v = make_inits(inits, TryFut::new);
            Coll::Tja(in_crate(move || if lazy { try_join_all(Hinted { inner: v.into_iter(), hint }) } else { try_join_all(v) }))
        }
    }
}

// ------------------------------------------------------------------------------------
// ops

fn supports_push(c: &Coll, front: bool) -> bool {
    if front {
        matches!(c, Coll::Fob(_) | Coll::Fo(_))
    } else {
        matches!(
            c,
            Coll::Fub(_) | Coll::Fu(_) | Coll::Mb(_) | Coll::Mu(_) | Coll::Fob(_) | Coll::Fo(_)
        )
    }
}

fn supports_try_push(c: &Coll, front: bool) -> bool {
    if front {
        matches!(c, Coll::Fob(_))
    } else {
        matches!(c, Coll::Fub(_) | Coll::Mb(_) | Coll::Fob(_))
    }
}

/// An iterator that reports the `size_hint` it is told to report.
struct Hinted<I> {
    inner: I,
    hint: (usize, Option<usize>),
}

impl<I: Iterator> Iterator for Hinted<I> {
    type Item = I::Item;
    fn next(&mut self) -> Option<I::Item> {
        self.inner.next()
    }
    fn size_hint(&self) -> (usize, Option<usize>) {
        self.hint
    }
}

/// `push` / `pushf`; returns the registry index of the child (to mark it accepted once the
/// call has returned)
fn push(c: &mut Coll, cid: u32, script: Script, front: bool) -> usize {
    match c {
        Coll::Fub(c) => {
            let f = Fut::new(cid, script, false);
            let idx = f.idx();
            in_crate(move || c.push(f));
            idx
        }
        Coll::Fu(c) => {
            let f = Fut::new(cid, script, false);
            let idx = f.idx();
            in_crate(move || c.push(f));
            idx
        }
        Coll::Mb(c) => {
            let s = Src::new(cid, script, false);
            let idx = s.idx();
            in_crate(move || c.push(s));
            idx
        }
        Coll::Mu(c) => {
            let s = USrc::new(cid, script, false);
            let idx = s.idx();
            in_crate(move || c.push(s));
            idx
        }
        Coll::Fob(c) => {
            let f = Fut::new(cid, script, false);
            let idx = f.idx();
            if front {
                in_crate(move || c.push_front(f));
            } else {
                in_crate(move || c.push_back(f));
            }
            idx
        }
        Coll::Fo(c) => {
            let f = Fut::new(cid, script, false);
            let idx = f.idx();
            if front {
                in_crate(move || c.push_front(f));
            } else {
                in_crate(move || c.push_back(f));
            }
            idx
        }
        _ => unreachable!("checked by supports_push"),
    }
}

fn try_push(c: &mut Coll, cid: u32, script: Script, front: bool) {
    fn settle<T>(idx: usize, r: Result<(), T>, cid_of: impl Fn(&T) -> u32) {
        match r {
            Ok(()) => {
                set_accepted(idx);
                logf!("ret ok");
            }
            Err(back) => {
                logf!("refused {}", cid_of(&back));
                // harness side drop of a child that was never accepted: `cdrop <cid> ext`
                drop(back);
                logf!("ret refused");
            }
        }
    }
    match c {
        Coll::Fub(c) => {
            let f = Fut::new(cid, script, false);
            let idx = f.idx();
            let r = in_crate(move || c.try_push(f));
            settle(idx, r, Child::cid);
        }
        Coll::Mb(c) => {
            let s = Src::new(cid, script, false);
            let idx = s.idx();
            let r = in_crate(move || c.try_push(s));
            settle(idx, r, Src::cid);
        }
        Coll::Fob(c) => {
            let f = Fut::new(cid, script, false);
            let idx = f.idx();
            let r = if front {
                in_crate(move || c.try_push_front(f))
            } else {
                in_crate(move || c.try_push_back(f))
            };
            settle(idx, r, Child::cid);
        }
        _ => unreachable!("checked by supports_try_push"),
    }
}

fn poll(c: &mut Coll, waker: &Waker) {
    let mut cx = Context::from_waker(waker);
    let cx = &mut cx;
    match c {
        Coll::Fub(c) => ret_stream_tok(in_crate(|| Pin::new(c).poll_next(cx))),
        Coll::Fu(c) => ret_stream_tok(in_crate(|| Pin::new(c).poll_next(cx))),
        Coll::Mb(c) => ret_stream_tok(in_crate(|| Pin::new(c).poll_next(cx))),
        Coll::Mu(c) => ret_stream_tok(in_crate(|| Pin::new(c).poll_next(cx))),
        Coll::Fob(c) => ret_stream_tok(in_crate(|| Pin::new(c).poll_next(cx))),
        Coll::Fo(c) => ret_stream_tok(in_crate(|| Pin::new(c).poll_next(cx))),
        Coll::Bu(c) => ret_stream_tok(in_crate(|| c.as_mut().poll_next(cx))),
        Coll::Bo(c) => ret_stream_tok(in_crate(|| c.as_mut().poll_next(cx))),
        Coll::Tbu(c) => ret_stream_res(in_crate(|| c.as_mut().poll_next(cx))),
        Coll::Tbo(c) => ret_stream_res(in_crate(|| c.as_mut().poll_next(cx))),
        Coll::Fec(c) => match in_crate(|| c.as_mut().poll(cx)) {
            Poll::Pending => logf!("ret pending"),
            Poll::Ready(()) => logf!("ret done"),
        },
        Coll::Ja(c) => match in_crate(|| Pin::new(c).poll(cx)) {
            Poll::Pending => logf!("ret pending"),
            Poll::Ready(v) => {
                logf!("ret ready {}", tok_list(&v));
                drop_out_vec(v);
            }
        },
        Coll::JaUnit(c, cids) => match in_crate(|| Pin::new(c).poll(cx)) {
            Poll::Pending => logf!("ret pending"),
            Poll::Ready(v) => {
                // the outputs carry no data: what can be observed is how many there are
                let n = cids.len();
                let len = v.len();
                let mut s = String::new();
                for (i, cid) in cids.iter().take(len.min(n)).enumerate() {
                    if i > 0 {
                        s.push(',');
                    }
                    let _ = write!(s, "o{cid}");
                }
                for i in 0..len.saturating_sub(n).min(3) {
                    if i > 0 || n > 0 {
                        s.push(',');
                    }
                    s.push_str("g0.0.0");
                }
                if s.is_empty() {
                    s.push('-');
                }
                logf!("ret ready {s}");
                for cid in cids.iter().take(len.min(n)) {
                    logf!("odrop o{cid} out");
                }
                if len >= n {
                    // a second poll returns the empty Vec
                    cids.clear();
                }
                drop(v);
            }
        },
        Coll::Tja(c) => match in_crate(|| Pin::new(c).poll(cx)) {
            Poll::Pending => logf!("ret pending"),
            Poll::Ready(Ok(v)) => {
                logf!("ret okv {}", tok_list(&v));
                drop_out_vec(v);
            }
            Poll::Ready(Err(e)) => {
                logf!("ret err {e}");
                drop_out(e);
            }
        },
    }
}

fn observe(c: &Coll) -> Obs {
    let mut o = Obs::default();
    match c {
        Coll::Fub(c) => {
            o.len = Some(in_crate(|| c.len()));
            o.empty = Some(in_crate(|| c.is_empty()));
            o.cap = Some(in_crate(|| c.capacity()));
            o.hint = Some(in_crate(|| Stream::size_hint(c)));
            o.term = Some(in_crate(|| FusedStream::is_terminated(c)));
        }
        Coll::Fu(c) => {
            o.len = Some(in_crate(|| c.len()));
            o.empty = Some(in_crate(|| c.is_empty()));
            o.cap = Some(in_crate(|| c.capacity()));
            o.hint = Some(in_crate(|| Stream::size_hint(c)));
            o.term = Some(in_crate(|| FusedStream::is_terminated(c)));
        }
        Coll::Mb(c) => {
            o.hint = Some(in_crate(|| Stream::size_hint(c)));
        }
        Coll::Mu(c) => {
            o.len = Some(in_crate(|| c.len()));
            o.empty = Some(in_crate(|| c.is_empty()));
            o.hint = Some(in_crate(|| Stream::size_hint(c)));
        }
        Coll::Fob(c) => {
            o.len = Some(in_crate(|| c.len()));
            o.empty = Some(in_crate(|| c.is_empty()));
            o.hint = Some(in_crate(|| Stream::size_hint(c)));
            o.term = Some(in_crate(|| FusedStream::is_terminated(c)));
        }
        Coll::Fo(c) => {
            o.len = Some(in_crate(|| c.len()));
            o.empty = Some(in_crate(|| c.is_empty()));
            o.hint = Some(in_crate(|| Stream::size_hint(c)));
            o.term = Some(in_crate(|| FusedStream::is_terminated(c)));
        }
        Coll::Bu(c) => o.hint = Some(in_crate(|| Stream::size_hint(&**c))),
        Coll::Bo(c) => o.hint = Some(in_crate(|| Stream::size_hint(&**c))),
        Coll::Tbu(c) => o.hint = Some(in_crate(|| Stream::size_hint(&**c))),
        Coll::Tbo(c) => o.hint = Some(in_crate(|| Stream::size_hint(&**c))),
        Coll::Fec(c) => o.term = Some(in_crate(|| c.is_terminated())),
        Coll::Ja(_) | Coll::JaUnit(..) | Coll::Tja(_) => {}
    }
    o
}

#[allow(dead_code)]
fn _assert_types() {
    // the child types must not be `Unpin` (C08 reads their addresses), `USrc` must be
    fn unpin<T: Unpin>() {}
    unpin::<USrc>();
    unpin::<FuturesUnorderedBounded<Fut>>();
    unpin::<MergeBounded<Src>>();
    unpin::<JoinAll<Fut>>();
    unpin::<TryJoinAll<TryFut>>();
}
