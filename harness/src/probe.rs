//! The probe hook installed into the crate (`futures_buffered::verif::set_hook`).

use crate::child::perform;
use crate::galloc::{register_block, CbGuard};
use crate::state::{g, inj_acts, Block, InjPoint};
use futures_buffered::verif::{layout_of, Probe};

pub fn hook(p: Probe) -> bool {
    let _cb = CbGuard::enter();
    match p {
        Probe::Alloc { base, cap } => {
            let size = layout_of(cap).0;
            register_block(base);
            g(|g| {
                let b = g.blocks.len();
                g.blocks.push(Block {
                    base,
                    cap,
                    size,
                    live: true,
                });
                g.logf(format_args!("blk alloc {b} {cap}"));
            });
            false
        }
        Probe::Free { base } => {
            g(|g| match g.live_block_at(base) {
                Some(b) => {
                    g.blocks[b].live = false;
                    g.logf(format_args!("blk free {b}"));
                }
                None => g.logf(format_args!("blk free ?")),
            });
            false
        }
        Probe::Vtable {
            kind,
            item,
            header,
            index,
        } => {
            g(|g| {
                let expect = header
                    .wrapping_add(g.slice_offset)
                    .wrapping_add(index.wrapping_mul(g.item_size));
                let ok = g.live_block_at(header).is_some() && item == expect;
                if !ok {
                    match g.block_containing(item) {
                        Some(b) => g.logf(format_args!("vtbad {kind} {b}")),
                        None => g.logf(format_args!("vtbad {kind} ?")),
                    }
                }
            });
            false
        }
        Probe::AfterRegister { .. } => {
            let j = g(|g| {
                g.reg_count += 1;
                g.reg_count
            });
            let acts = inj_acts(InjPoint::Reg, j);
            if !acts.is_empty() {
                g(|g| g.logf(format_args!("inj reg {j} -")));
            }
            for a in acts {
                perform(a, None);
            }
            false
        }
        Probe::PopEnter { .. } => g(|g| {
            g.pop_count += 1;
            let k = g.pop_count;
            g.inj.inc.contains(&k)
        }),
        Probe::PopMid { base, index } => {
            let k = g(|g| g.pop_count);
            let acts = inj_acts(InjPoint::Mid, k);
            if !acts.is_empty() {
                g(|g| {
                    let b = g.block_containing(base);
                    match b {
                        Some(b) => g.logf(format_args!("inj mid {k} {b}.{index}")),
                        None => g.logf(format_args!("inj mid {k} ?.{index}")),
                    }
                });
            }
            for a in acts {
                perform(a, None);
            }
            false
        }
        Probe::PopExit { base, result, index } => {
            let k = g(|g| g.pop_count);
            let acts = inj_acts(InjPoint::Exit, k);
            if !acts.is_empty() {
                g(|g| {
                    if result == 2 {
                        match g.block_containing(base) {
                            Some(b) => g.logf(format_args!("inj exit {k} {b}.{index}")),
                            None => g.logf(format_args!("inj exit {k} ?.{index}")),
                        }
                    } else {
                        g.logf(format_args!("inj exit {k} -"));
                    }
                });
            }
            for a in acts {
                perform(a, None);
            }
            false
        }
    }
}
