//! `fbharness <history-file> <trace-file>`: drive the real `futures-buffered` crate with
//! the scripted histories of the history file and write the event trace
//! (formats: /verif/docs/FORMAT.md).
//!
//! `fbharness --layout`: print the layout arithmetic of the crate's waker block.

mod bombs;
mod child;
mod galloc;
mod probe;
mod run;
mod script;
mod state;
mod stress;

use run::{check_spec, reset_history, Decl, Hist};
use script::{parse_new, parse_op, parse_script, parse_up, Spec, UpStep};
use state::g;
use std::io::Write;

#[global_allocator]
static ALLOC: galloc::HarnessAlloc = galloc::HarnessAlloc;

/// flush the in-memory trace to the file once it is larger than this (only between
/// histories)
const FLUSH_AT: usize = 8 << 20;

fn print_layout() {
    use futures_buffered::verif::{layout_info, layout_of};
    let li = layout_info();
    println!(
        "layout header_size={} header_align={} item_size={} item_align={} slice_offset={}",
        li.header_size, li.header_align, li.item_size, li.item_align, li.slice_offset
    );
    let caps = (0..=64usize).chain([100, 255, 256, 1000, 4096]);
    for n in caps {
        let (s, a) = layout_of(n);
        println!("cap {n} size {s} align {a}");
    }
    print_pins();
}

/// `Unpin` facts (autoref specialisation: the by-value impl is chosen iff `T: Unpin`).
/// The adapters keep their upstream inline, so over a `!Unpin` upstream they must not be
/// `Unpin`; the collections keep their children behind a heap allocation and are `Unpin`
/// whatever the children are.
fn print_pins() {
    use crate::child::{Fut, KTok, KTry, TryFut, Upstream};
    use futures_buffered::{
        BufferUnordered, BufferedOrdered, FuturesOrdered, FuturesOrderedBounded, FuturesUnordered,
        FuturesUnorderedBounded, JoinAll, TryBufferUnordered, TryBufferedOrdered, TryJoinAll,
    };
    use std::marker::PhantomData;
    struct P<T>(PhantomData<T>);
    trait Yes {
        fn unpin(&self) -> u8;
    }
    impl<T: Unpin> Yes for P<T> {
        fn unpin(&self) -> u8 {
            1
        }
    }
    trait No {
        fn unpin(&self) -> u8;
    }
    impl<T> No for &P<T> {
        fn unpin(&self) -> u8 {
            0
        }
    }
    macro_rules! q {
        ($t:ty) => {
            (&P::<$t>(PhantomData)).unpin()
        };
    }
    println!(
        "pins bu={} bo={} tbu={} tbo={} fub={} fu={} fob={} fo={} ja={} tja={}",
        q!(BufferUnordered<Upstream<KTok>>),
        q!(BufferedOrdered<Upstream<KTok>>),
        q!(TryBufferUnordered<Upstream<KTry>>),
        q!(TryBufferedOrdered<Upstream<KTry>>),
        q!(FuturesUnorderedBounded<Fut>),
        q!(FuturesUnordered<Fut>),
        q!(FuturesOrderedBounded<Fut>),
        q!(FuturesOrdered<Fut>),
        q!(JoinAll<Fut>),
        q!(TryJoinAll<TryFut>)
    );
}

struct Pending {
    spec: Option<Spec>,
    inits: Vec<(u32, script::Script)>,
    up: Vec<UpStep>,
}

fn fail(lineno: usize, msg: &str) -> ! {
    eprintln!("fbharness: line {lineno}: {msg}");
    std::process::exit(2);
}

fn flush(out: &mut std::fs::File, force: bool) {
    let buf = g(|g| {
        if force || g.out.len() >= FLUSH_AT {
            Some(std::mem::take(&mut g.out))
        } else {
            None
        }
    });
    if let Some(buf) = buf {
        if let Err(e) = out.write_all(buf.as_bytes()) {
            eprintln!("fbharness: cannot write the trace: {e}");
            std::process::exit(1);
        }
    }
}

/// progress marker for the hang watchdog: (current history, ops started so far, when)
static PROGRESS: std::sync::Mutex<Option<(String, usize, std::time::Instant)>> =
    std::sync::Mutex::new(None);

fn mark_progress(name: Option<&str>) {
    if let Ok(mut p) = PROGRESS.lock() {
        let (n, k) = match (p.take(), name) {
            (_, Some(n)) => (n.to_string(), 0),
            (Some((n, k, _)), None) => (n, k + 1),
            (None, None) => (String::new(), 0),
        };
        *p = Some((n, k, std::time::Instant::now()));
    }
}

/// a history op that does not return within the limit (an unbounded loop inside the crate
/// that the child-poll watchdog cannot see, e.g. a corrupted ready queue) ends the run:
/// `<trace>.hang` names the history, exit code 3
fn start_hang_watchdog(trace_path: String) {
    let limit = std::env::var("FBHARNESS_HANG_SECS")
        .ok()
        .and_then(|v| v.parse::<u64>().ok())
        .unwrap_or(30);
    std::thread::spawn(move || loop {
        std::thread::sleep(std::time::Duration::from_millis(500));
        let stuck = PROGRESS.lock().ok().and_then(|p| {
            p.as_ref().and_then(|(n, k, t)| {
                if t.elapsed().as_secs() >= limit {
                    Some((n.clone(), *k))
                } else {
                    None
                }
            })
        });
        if let Some((n, k)) = stuck {
            let _ = std::fs::write(
                format!("{trace_path}.hang"),
                format!("hang {n} op {k} limit_s {limit}\n"),
            );
            std::process::exit(3);
        }
    });
}

fn main() {
    let args: Vec<String> = std::env::args().collect();
    if args.len() == 2 && args[1] == "--layout" {
        print_layout();
        return;
    }
    if args.len() == 3 && args[1] == "--bombs" {
        // scenarios with panicking destructors (their own oracle, see bombs.rs)
        let ok = bombs::run_all(&args[2]);
        std::process::exit(if ok { 0 } else { 1 });
    }
    if args.len() == 4 && args[1] == "--stress" {
        // real threads: the search for a failing input when a concurrency lemma broke (see stress.rs)
        let secs = args[2].parse::<u64>().unwrap_or(30);
        let ok = stress::run(secs, &args[3]);
        std::process::exit(if ok { 0 } else { 1 });
    }
    if args.len() != 3 {
        eprintln!("usage: fbharness <history-file> <trace-file>\n       fbharness --layout\n       fbharness --bombs <out-file>\n       fbharness --stress <seconds> <out-file>");
        std::process::exit(2);
    }
    let input = match std::fs::read_to_string(&args[1]) {
        Ok(s) => s,
        Err(e) => {
            eprintln!("fbharness: cannot read {}: {e}", args[1]);
            std::process::exit(1);
        }
    };
    let mut outf = match std::fs::File::create(&args[2]) {
        Ok(f) => f,
        Err(e) => {
            eprintln!("fbharness: cannot create {}: {e}", args[2]);
            std::process::exit(1);
        }
    };

    // panics are expected events: keep stderr quiet
    // (the hook runs before the panic runtime allocates the payload)
    std::panic::set_hook(Box::new(|_| {
        galloc::PANICKING.store(true, std::sync::atomic::Ordering::Relaxed);
    }));

    if let Some(n) = std::env::var("FBHARNESS_WATCHDOG")
        .ok()
        .and_then(|v| v.parse::<usize>().ok())
    {
        child::WATCHDOG.store(n, std::sync::atomic::Ordering::Relaxed);
    }

    let _ = std::fs::remove_file(format!("{}.hang", args[2]));
    start_hang_watchdog(args[2].clone());

    let li = futures_buffered::verif::layout_info();
    g(|g| {
        g.slice_offset = li.slice_offset;
        g.item_size = li.item_size.max(1);
    });
    futures_buffered::verif::set_hook(Some(probe::hook));

    // interpreter state
    let mut in_hist = false;
    let mut pending: Option<Pending> = None; // between `hist` and `build`
    let mut hist: Option<Hist> = None; // between `build` and `endhist`

    let mut ext_left: usize = 0; // `#!extend N` seen: plain pushes still to be buffered
    let mut ext_buf: Vec<run::ExtItem> = Vec::new();
    let mut ext_bomb = false;

    for (i, raw) in input.lines().enumerate() {
        let lineno = i + 1;
        let line = raw.trim_end();
        if let Some(n) = line.strip_prefix("#!extendp ").or_else(|| line.strip_prefix("#!extend ")) {
            // `#!extendp`: the iterator panics once its elements are used up (the panic is caught)
            // harness directive (a comment for every other reader of the history): the next N
            // plain `push` lines are executed as the elements of one `Extend::extend` call
            if let Some(h) = hist.as_mut() {
                if !ext_buf.is_empty() {
                    h.run_extend(std::mem::take(&mut ext_buf), ext_bomb);
                }
            }
            ext_left = n.trim().parse::<usize>().unwrap_or(0);
            ext_bomb = line.starts_with("#!extendp ");
            continue;
        }
        if line.is_empty() || line.starts_with('#') {
            continue;
        }
        let (kw, rest) = match line.split_once(' ') {
            Some((k, r)) => (k, r.trim_start()),
            None => (line, ""),
        };

        if !in_hist {
            if kw != "hist" {
                fail(lineno, "expected `hist <name>`");
            }
            in_hist = true;
            mark_progress(Some(rest));
            pending = Some(Pending {
                spec: None,
                inits: Vec::new(),
                up: Vec::new(),
            });
            logf!("{line}");
            continue;
        }

        mark_progress(None);
        // anything but a plain `push` ends the run of elements of a pending `extend`
        if kw != "push" || ext_left == 0 {
            ext_left = 0;
            if !ext_buf.is_empty() {
                if let Some(h) = hist.as_mut() {
                    h.run_extend(std::mem::take(&mut ext_buf), ext_bomb);
                }
                ext_buf.clear();
            }
        }
        if kw == "endhist" {
            match hist.take() {
                Some(h) => h.finish(),
                None => reset_history(false),
            }
            pending = None;
            in_hist = false;
            logf!("endhist");
            flush(&mut outf, false);
            continue;
        }

        if let Some(p) = pending.as_mut() {
            // declaration part
            match kw {
                "new" => {
                    let spec = parse_new(rest).unwrap_or_else(|e| fail(lineno, &e));
                    check_spec(&spec).unwrap_or_else(|e| fail(lineno, &e));
                    p.spec = Some(spec);
                }
                "init" => {
                    let (cid, script) = match rest.split_once(' ') {
                        Some((c, s)) => (c, s.trim()),
                        None => (rest, "-"),
                    };
                    let cid = cid
                        .parse::<u32>()
                        .unwrap_or_else(|_| fail(lineno, "`init`: bad child id"));
                    let script = parse_script(script).unwrap_or_else(|e| fail(lineno, &e));
                    p.inits.push((cid, script));
                }
                "up" => {
                    p.up.push(parse_up(rest).unwrap_or_else(|e| fail(lineno, &e)));
                }
                "build" => {
                    let p = pending.take().unwrap();
                    let spec = p
                        .spec
                        .unwrap_or_else(|| fail(lineno, "`build` without `new`"));
                    hist = Some(Hist::build(Decl {
                        spec,
                        inits: p.inits,
                        up: p.up,
                    }));
                }
                "hist" => fail(lineno, "`hist` inside a history"),
                _ => fail(lineno, "op before `build`"),
            }
            continue;
        }

        // op part
        let h = hist.as_mut().expect("build seen");
        if kw == "hist" || kw == "new" || kw == "init" || kw == "up" || kw == "build" {
            fail(lineno, "declaration line after `build`");
        }
        // syntax is checked even when the history is dead
        let op = parse_op(line).unwrap_or_else(|e| fail(lineno, &e));
        if h.dead {
            continue;
        }
        let k = h.next_op;
        h.next_op += 1;
        if ext_left > 0 && h.supports_extend() {
            if let Some(script::Op::Push { cid, script, front: false }) = &op {
                ext_buf.push(run::ExtItem { k, line: line.to_string(), cid: *cid, script: script.clone() });
                ext_left -= 1;
                if ext_left == 0 {
                    h.run_extend(std::mem::take(&mut ext_buf), ext_bomb);
                }
                continue;
            }
        }
        logf!("op {k} {line}");
        match op {
            Some(op) => h.run_op(op),
            None => eprintln!("fbharness: line {lineno}: unknown op `{kw}` (only its op line is printed)"),
        }
    }
    if in_hist {
        eprintln!("fbharness: warning: the last history has no `endhist`");
        match hist.take() {
            Some(h) => h.finish(),
            None => reset_history(false),
        }
        logf!("endhist");
    }
    if let Ok(mut p) = PROGRESS.lock() {
        *p = None;
    }
    flush(&mut outf, true);
}
