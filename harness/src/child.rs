//! Tokens, scripted children (futures, sources), the scripted upstream and the scripted
//! actions.

use crate::galloc::{waker_call, CbGuard, DROPPING_OUT, POLLS_IN_OP};
use crate::logf;
use crate::script::{Act, Res, Script, UpStep};
use crate::state::{g, push_handle, put_handle, take_handle, ChildRec};
use futures_core::Stream;
use std::fmt;
use std::future::Future;
use std::marker::{PhantomData, PhantomPinned};
use std::pin::Pin;
use std::sync::atomic::Ordering::Relaxed;
use std::task::{Context, Poll, Waker};

/// more child / source / upstream polls than this inside one op: `ret runaway`
pub const WATCHDOG_LIMIT: usize = 20000;
/// the limit in force (`FBHARNESS_WATCHDOG=<n>` overrides it, for testing the watchdog)
pub static WATCHDOG: std::sync::atomic::AtomicUsize =
    std::sync::atomic::AtomicUsize::new(WATCHDOG_LIMIT);

/// panic payload of the watchdog
pub struct Runaway;

fn watchdog_tick() {
    let n = POLLS_IN_OP.fetch_add(1, Relaxed) + 1;
    if n > WATCHDOG.load(Relaxed) {
        std::panic::panic_any(Runaway);
    }
}

// ------------------------------------------------------------------------------------
// tokens

pub const K_OUT: u32 = 0;
pub const K_ERR: u32 = 1;
pub const K_ITEM: u32 = 2;
pub const K_UPERR: u32 = 3;

/// Output / error / item token.  Plain integers only: any bit pattern is a valid `Tok`
/// (a broken crate may hand out uninitialised memory as a token), nothing inside is heap
/// allocated.
#[repr(C)]
pub struct Tok {
    kind: u32,
    a: u32,
    b: u64,
}

impl Tok {
    pub fn new(kind: u32, a: u32, b: u64) -> Tok {
        g(|g| g.toks.push((kind, a, b)));
        Tok { kind, a, b }
    }
}

pub fn fmt_tok(f: &mut impl fmt::Write, kind: u32, a: u32, b: u64) -> fmt::Result {
    match kind {
        K_OUT => write!(f, "o{a}"),
        K_ERR => write!(f, "e{a}"),
        K_ITEM => write!(f, "i{a}.{b}"),
        K_UPERR => write!(f, "u{a}"),
        // not a token this harness ever made
        _ => write!(f, "g{kind:x}.{a:x}.{b:x}"),
    }
}

impl fmt::Display for Tok {
    fn fmt(&self, f: &mut fmt::Formatter<'_>) -> fmt::Result {
        fmt_tok(f, self.kind, self.a, self.b)
    }
}

impl Drop for Tok {
    fn drop(&mut self) {
        let _cb = CbGuard::enter();
        let out = DROPPING_OUT.load(Relaxed);
        let key = (self.kind, self.a, self.b);
        g(|g| {
            if let Some(pos) = g.toks.iter().position(|t| *t == key) {
                g.toks.remove(pos);
            }
            let mut s = String::new();
            let _ = fmt_tok(&mut s, key.0, key.1, key.2);
            g.logf(format_args!(
                "odrop {} {}",
                s,
                if out { "out" } else { "in" }
            ));
        });
    }
}

// ------------------------------------------------------------------------------------
// scripted actions

/// Perform one scripted action.  `cw` = waker of the context being polled with, `None` in
/// `env` ops and injections (`s` and `c` then do nothing).
pub fn perform(act: Act, cw: Option<&Waker>) {
    match act {
        Act::SelfWake => {
            if let Some(w) = cw {
                waker_call(|| w.wake_by_ref());
            }
        }
        Act::CloneCw => {
            if let Some(w) = cw {
                let c = waker_call(|| w.clone());
                push_handle(c);
            }
        }
        Act::WakeRef(h) => {
            if let Some(w) = take_handle(h) {
                waker_call(|| w.wake_by_ref());
                put_handle(h, w);
            }
        }
        Act::Wake(h) => {
            if let Some(w) = take_handle(h) {
                waker_call(move || w.wake());
            }
        }
        Act::Drop(h) => {
            if let Some(w) = take_handle(h) {
                waker_call(move || drop(w));
            }
        }
        Act::CloneH(h) => {
            if let Some(w) = take_handle(h) {
                let c = waker_call(|| w.clone());
                put_handle(h, w);
                push_handle(c);
            }
        }
    }
}

// ------------------------------------------------------------------------------------
// children

#[derive(Clone, Copy, PartialEq, Eq)]
pub enum Class {
    /// plain future: `R`,`X` -> Ready; others -> Pending
    Plain,
    /// try future: `R` -> Ok, `X` -> Err; others -> Pending
    Try,
    /// source: `I` -> item, `E` -> end; others -> Pending
    Source,
}

/// Register a new child in the registry; returns its registry index.
pub fn register_child(cid: u32, script: Script, accepted: bool) -> usize {
    g(|g| {
        g.children.push(ChildRec {
            cid,
            script,
            pc: 0,
            accepted,
            dropped: false,
            done: false,
            seq: 0,
        });
        g.children.len() - 1
    })
}

pub fn set_accepted(idx: usize) {
    g(|g| g.children[idx].accepted = true);
}

/// The shared poll body: logs `cpoll`, consumes a step, performs its actions, logs `cans`.
/// Returns the effective answer and (for `I`) the item number.
fn poll_core(idx: usize, cid: u32, addr: usize, cx: &mut Context<'_>, class: Class) -> (Res, u64) {
    let _cb = CbGuard::enter();
    watchdog_tick();
    let wdata = cx.waker().data() as usize;
    // log the poll, fetch the step
    let step: Option<(Vec<Act>, Res)> = g(|g| {
        match g.decode(wdata) {
            Some((b, slot)) => g.logf(format_args!("cpoll {cid} {b} {slot} {addr:#x}")),
            None => g.logf(format_args!("cpoll {cid} ? ? {addr:#x}")),
        }
        let c = &mut g.children[idx];
        if c.done || c.pc >= c.script.len() {
            None
        } else {
            let st = &c.script[c.pc];
            let r = (st.acts.clone(), st.res);
            c.pc += 1;
            Some(r)
        }
    });
    let mut eff = Res::P;
    if let Some((acts, res)) = step {
        for a in acts {
            perform(a, Some(cx.waker()));
        }
        eff = match (class, res) {
            (Class::Plain, Res::R | Res::X) => Res::R,
            (Class::Try, Res::R) => Res::R,
            (Class::Try, Res::X) => Res::X,
            (Class::Source, Res::I) => Res::I,
            (Class::Source, Res::E) => Res::E,
            _ => Res::P,
        };
    }
    let seq = g(|g| {
        let c = &mut g.children[idx];
        let mut seq = 0;
        match eff {
            Res::R | Res::X | Res::E => c.done = true,
            Res::I => {
                seq = c.seq;
                c.seq += 1;
            }
            Res::P => {}
        }
        g.logf(format_args!("cans {cid} {}", eff.letter()));
        seq
    });
    (eff, seq)
}

fn drop_core(idx: usize, cid: u32, addr: usize) {
    let _cb = CbGuard::enter();
    g(|g| {
        let c = &mut g.children[idx];
        c.dropped = true;
        if c.accepted {
            g.logf(format_args!("cdrop {cid} {addr:#x}"));
        } else {
            g.logf(format_args!("cdrop {cid} ext"));
        }
    });
}

/// What a child future resolves to, and what the upstream of the matching adapter yields.
pub trait Kind: Sized + 'static {
    type Output;
    type UpItem;
    const CLASS: Class;
    const TRY: bool;
    /// output for the effective answer `R` or `X`
    fn output(cid: u32, eff: Res) -> Self::Output;
    fn up_ok(child: Child<Self>) -> Self::UpItem;
    /// the upstream error item `u<k>` (try adapters only)
    fn up_err(k: u32) -> Option<Self::UpItem>;
}

/// children of FUB, FU, FOB, FO, BU, BO, JA: `Output = Tok`
pub struct KTok;
/// children of TBU, TBO, TJA: `Output = Result<Tok, Tok>`
pub struct KTry;
/// children of FEC: `Output = ()`
pub struct KUnit;

impl Kind for KTok {
    type Output = Tok;
    type UpItem = Child<KTok>;
    const CLASS: Class = Class::Plain;
    const TRY: bool = false;
    fn output(cid: u32, _eff: Res) -> Tok {
        Tok::new(K_OUT, cid, 0)
    }
    fn up_ok(child: Child<Self>) -> Self::UpItem {
        child
    }
    fn up_err(_k: u32) -> Option<Self::UpItem> {
        None
    }
}

impl Kind for KTry {
    type Output = Result<Tok, Tok>;
    type UpItem = Result<Child<KTry>, Tok>;
    const CLASS: Class = Class::Try;
    const TRY: bool = true;
    fn output(cid: u32, eff: Res) -> Result<Tok, Tok> {
        if eff == Res::X {
            Err(Tok::new(K_ERR, cid, 0))
        } else {
            Ok(Tok::new(K_OUT, cid, 0))
        }
    }
    fn up_ok(child: Child<Self>) -> Self::UpItem {
        Ok(child)
    }
    fn up_err(k: u32) -> Option<Self::UpItem> {
        Some(Err(Tok::new(K_UPERR, k, 0)))
    }
}

impl Kind for KUnit {
    type Output = ();
    type UpItem = Child<KUnit>;
    const CLASS: Class = Class::Plain;
    const TRY: bool = false;
    fn output(_cid: u32, _eff: Res) {}
    fn up_ok(child: Child<Self>) -> Self::UpItem {
        child
    }
    fn up_err(_k: u32) -> Option<Self::UpItem> {
        None
    }
}

/// A scripted, `!Unpin` child future.  All of its state lives in the registry, so the
/// value itself is three plain words and can be moved freely before it is pinned.
pub struct Child<K> {
    idx: usize,
    cid: u32,
    _k: PhantomData<fn() -> K>,
    _pin: PhantomPinned,
}

pub type Fut = Child<KTok>;
pub type TryFut = Child<KTry>;
pub type UnitFut = Child<KUnit>;

impl<K> Child<K> {
    /// creates the child and its registry entry
    pub fn new(cid: u32, script: Script, accepted: bool) -> Self {
        let idx = register_child(cid, script, accepted);
        Child {
            idx,
            cid,
            _k: PhantomData,
            _pin: PhantomPinned,
        }
    }
    pub fn idx(&self) -> usize {
        self.idx
    }
    pub fn cid(&self) -> u32 {
        self.cid
    }
}

impl<K: Kind> Future for Child<K> {
    type Output = K::Output;

    fn poll(self: Pin<&mut Self>, cx: &mut Context<'_>) -> Poll<K::Output> {
        let _cb = CbGuard::enter();
        let this: &Self = self.as_ref().get_ref();
        let addr = this as *const Self as usize;
        let (eff, _) = poll_core(this.idx, this.cid, addr, cx, K::CLASS);
        match eff {
            Res::R | Res::X => Poll::Ready(K::output(this.cid, eff)),
            _ => Poll::Pending,
        }
    }
}

impl<K> Drop for Child<K> {
    fn drop(&mut self) {
        drop_core(self.idx, self.cid, self as *const Self as usize);
    }
}

macro_rules! source_type {
    ($name:ident, $($pin:tt)*) => {
        pub struct $name {
            idx: usize,
            cid: u32,
            $($pin)*
        }

        impl $name {
            pub fn idx(&self) -> usize {
                self.idx
            }
            #[allow(dead_code)]
            pub fn cid(&self) -> u32 {
                self.cid
            }
        }

        impl Stream for $name {
            type Item = Tok;

            fn poll_next(self: Pin<&mut Self>, cx: &mut Context<'_>) -> Poll<Option<Tok>> {
                let _cb = CbGuard::enter();
                let this: &Self = self.as_ref().get_ref();
                let addr = this as *const Self as usize;
                let (eff, seq) = poll_core(this.idx, this.cid, addr, cx, Class::Source);
                match eff {
                    Res::I => Poll::Ready(Some(Tok::new(K_ITEM, this.cid, seq))),
                    Res::E => Poll::Ready(None),
                    _ => Poll::Pending,
                }
            }
        }

        impl Drop for $name {
            fn drop(&mut self) {
                drop_core(self.idx, self.cid, self as *const Self as usize);
            }
        }
    };
}

// `!Unpin` source for MB, `Unpin` source for MU (which requires it)
source_type!(Src, _pin: PhantomPinned,);
source_type!(USrc,);

impl Src {
    pub fn new(cid: u32, script: Script, accepted: bool) -> Self {
        let idx = register_child(cid, script, accepted);
        Src {
            idx,
            cid,
            _pin: PhantomPinned,
        }
    }
}

impl USrc {
    pub fn new(cid: u32, script: Script, accepted: bool) -> Self {
        let idx = register_child(cid, script, accepted);
        USrc { idx, cid }
    }
}

// ------------------------------------------------------------------------------------
// upstream of the adapters

/// The scripted upstream; its script and position live in the globals (`g.up`).
pub struct Upstream<K> {
    _k: PhantomData<fn() -> K>,
    _pin: PhantomPinned,
}

impl<K> Upstream<K> {
    pub fn new() -> Self {
        Upstream {
            _k: PhantomData,
            _pin: PhantomPinned,
        }
    }
}

enum UpPlan {
    AfterEnd,
    Item(u32, Script),
    Pend(Vec<Act>),
    Err(u32),
    End,
}

impl<K: Kind> Stream for Upstream<K> {
    type Item = K::UpItem;

    fn poll_next(self: Pin<&mut Self>, cx: &mut Context<'_>) -> Poll<Option<K::UpItem>> {
        let _cb = CbGuard::enter();
        watchdog_tick();
        let here = self.as_ref().get_ref() as *const Self as usize;
        let plan = g(|g| {
            // a pinned upstream is polled at one address for its whole life (kind 10)
            if g.up.addr != 0 && g.up.addr != here {
                g.logf(format_args!("vtbad 10 0"));
            }
            g.up.addr = here;
            let up = &mut g.up;
            if up.ended {
                g.logf(format_args!("uppoll after-end"));
                return UpPlan::AfterEnd;
            }
            if up.pc >= up.script.len() {
                g.logf(format_args!("uppoll pend"));
                return UpPlan::Pend(Vec::new());
            }
            let k = up.pc;
            up.pc += 1;
            match &up.script[k] {
                UpStep::Item(s) => {
                    up.items_made += 1;
                    let cid = up.items_made;
                    let s = s.clone();
                    g.logf(format_args!("uppoll item {cid}"));
                    UpPlan::Item(cid, s)
                }
                UpStep::Pend(acts) => {
                    let acts = acts.clone();
                    g.logf(format_args!("uppoll pend"));
                    UpPlan::Pend(acts)
                }
                UpStep::Err => {
                    if K::TRY {
                        g.logf(format_args!("uppoll err u{k}"));
                        UpPlan::Err(k as u32)
                    } else {
                        g.logf(format_args!("uppoll pend"));
                        UpPlan::Pend(Vec::new())
                    }
                }
                UpStep::End => {
                    up.ended = true;
                    g.logf(format_args!("uppoll end"));
                    UpPlan::End
                }
            }
        });
        match plan {
            UpPlan::AfterEnd | UpPlan::End => Poll::Ready(None),
            UpPlan::Item(cid, script) => {
                // adapter children are accepted when the upstream hands them out
                Poll::Ready(Some(K::up_ok(Child::new(cid, script, true))))
            }
            UpPlan::Pend(acts) => {
                for a in acts {
                    perform(a, Some(cx.waker()));
                }
                Poll::Pending
            }
            UpPlan::Err(k) => match K::up_err(k) {
                Some(e) => Poll::Ready(Some(e)),
                None => Poll::Pending,
            },
        }
    }

    fn size_hint(&self) -> (usize, Option<usize>) {
        let _cb = CbGuard::enter();
        g(|g| {
            let rem = g.up.rem();
            (
                rem.saturating_sub(g.up.hlo),
                g.up.hhi.map(|h| rem.saturating_add(h)),
            )
        })
    }
}

impl<K> Drop for Upstream<K> {
    fn drop(&mut self) {
        let _cb = CbGuard::enter();
        // ... and dropped where it was polled
        let here = self as *const Self as usize;
        if g(|g| g.up.addr != 0 && g.up.addr != here) {
            logf!("vtbad 10 0");
        }
        logf!("updrop");
    }
}
