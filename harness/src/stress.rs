//! `fbharness --stress <seconds> <out-file>`: real threads.
//!
//! The histories of this harness are sequential: a waker "invoked from another thread" is an
//! action injected at a hook point.  What only a concurrent schedule can exhibit (the order of
//! the shared-memory steps of a waker call, the owners of the reference count, memory orderings)
//! is tied to the source by generated lemmas (DESIGN.md §5).  When one of those lemmas no longer
//! holds for the current text, the check runs this mode as its search for a concrete failing
//! input: a few scenarios, each repeated with swept timing until the time budget is used up,
//! each with an oracle of its own that correct code satisfies under every schedule:
//!
//!   same-slot : clones of one pending child's waker are invoked on several threads at the same
//!               instant; afterwards one poll polls that child exactly once, the collection still
//!               completes, and dropping everything terminates and releases the block once
//!   lost-wake : a child is made ready and its waker invoked on another thread while the task
//!               sleeps; the task is polled the moment its waker fires; the item must arrive
//!               without any further help
//!   storm     : one child's waker is invoked over and over on another thread while the task polls
//!               over and over; afterwards, single-threaded, the child is made ready and woken
//!               once more: the item must arrive
//!   notify-drop: the collection is dropped while a child waker, invoked on another thread, is in the
//!               middle of notifying the task (the task waker holds that window open): the
//!               registered task waker stays alive until the invocation is over
//!   owners    : the collection is dropped on one thread while clones of its child wakers are
//!               dropped / invoked by value on others: the block is released exactly once, after
//!               the last owner, and never touched afterwards
//!
//! A probe hook that is safe to call from any thread keeps the set of live waker blocks: a block
//! released twice, a vtable entry on a released block and a block still live when all its owners
//! are gone are violations.  Nothing here is a proof; a run that finds nothing proves nothing.

use futures_buffered::verif::{set_hook, Probe};
use futures_buffered::{FuturesUnordered, FuturesUnorderedBounded};
use futures_core::Stream;
use std::collections::HashMap;
use std::future::Future;
use std::io::Write;
use std::pin::Pin;
use std::sync::atomic::{AtomicBool, AtomicUsize, Ordering::SeqCst};
use std::sync::{mpsc, Arc, Mutex};
use std::task::{Context, Poll, Wake, Waker};
use std::time::{Duration, Instant};

static FAILS: Mutex<Vec<String>> = Mutex::new(Vec::new());
/// base -> (live?, times released)
static BLOCKS: Mutex<Option<HashMap<usize, (bool, usize)>>> = Mutex::new(None);

static OUT: Mutex<Option<String>> = Mutex::new(None);

/// records a failure and appends it to the report at once (a crash of the process keeps it)
fn fail(msg: String) {
    if let Ok(mut f) = FAILS.lock() {
        if f.len() < 50 {
            if let Ok(o) = OUT.lock() {
                if let Some(p) = o.as_ref() {
                    if let Ok(mut fh) = std::fs::OpenOptions::new().create(true).append(true).open(p) {
                        let _ = fh.write_all(format!("stress VIOLATION {msg}\n").as_bytes());
                    }
                }
            }
            f.push(msg);
        }
    }
}

fn hook(p: Probe) -> bool {
    let mut g = match BLOCKS.lock() {
        Ok(g) => g,
        Err(e) => e.into_inner(),
    };
    let m = g.get_or_insert_with(HashMap::new);
    match p {
        Probe::Alloc { base, .. } => {
            m.insert(base, (true, 0));
        }
        Probe::Free { base } => match m.get_mut(&base) {
            Some(e) => {
                e.1 += 1;
                if !e.0 {
                    drop(g);
                    fail(format!("owners: the waker block at {base:#x} was released twice"));
                    return false;
                }
                e.0 = false;
            }
            None => {}
        },
        Probe::Vtable { kind, header, .. } => {
            if let Some((false, _)) = m.get(&header) {
                drop(g);
                fail(format!(
                    "owners: waker vtable entry {kind} (0 clone, 1 wake, 2 wake_by_ref, 3 drop) on a released block"
                ));
            }
        }
        _ => {}
    }
    false
}

fn live_blocks() -> usize {
    let g = match BLOCKS.lock() {
        Ok(g) => g,
        Err(e) => e.into_inner(),
    };
    g.as_ref().map_or(0, |m| m.values().filter(|e| e.0).count())
}

fn forget_blocks() {
    if let Ok(mut g) = BLOCKS.lock() {
        *g = Some(HashMap::new());
    }
}

struct CountWaker(AtomicUsize);
impl Wake for CountWaker {
    fn wake(self: Arc<Self>) {
        self.0.fetch_add(1, SeqCst);
    }
    fn wake_by_ref(self: &Arc<Self>) {
        self.0.fetch_add(1, SeqCst);
    }
}

#[derive(Default)]
struct Ctl {
    polls: AtomicUsize,
    done: AtomicBool,
    completed: AtomicBool,
    again: AtomicBool,
    waker: Mutex<Option<Waker>>,
}

struct Child(Arc<Ctl>, usize);
impl Future for Child {
    type Output = usize;
    fn poll(self: Pin<&mut Self>, cx: &mut Context<'_>) -> Poll<usize> {
        let c = &self.0;
        if c.completed.load(SeqCst) {
            c.again.store(true, SeqCst);
            return Poll::Pending;
        }
        c.polls.fetch_add(1, SeqCst);
        if c.done.load(SeqCst) {
            c.completed.store(true, SeqCst);
            return Poll::Ready(self.1);
        }
        *c.waker.lock().unwrap() = Some(cx.waker().clone());
        Poll::Pending
    }
}

/// the two collections of futures behind one face
enum Coll {
    B(FuturesUnorderedBounded<Child>),
    U(FuturesUnordered<Child>),
}
impl Coll {
    fn new(kind: usize) -> Self {
        match kind % 2 {
            0 => Coll::B(FuturesUnorderedBounded::new(4)),
            _ => Coll::U(FuturesUnordered::with_capacity(1)),
        }
    }
    fn push(&mut self, c: Child) {
        match self {
            Coll::B(q) => q.push(c),
            Coll::U(q) => q.push(c),
        }
    }
    fn poll(&mut self, w: &Waker) -> Poll<Option<usize>> {
        let mut cx = Context::from_waker(w);
        match self {
            Coll::B(q) => Pin::new(q).poll_next(&mut cx),
            Coll::U(q) => Pin::new(q).poll_next(&mut cx),
        }
    }
    fn name(&self) -> &'static str {
        match self {
            Coll::B(_) => "FuturesUnorderedBounded",
            Coll::U(_) => "FuturesUnordered",
        }
    }
}
// the children only hold Arcs and atomics
unsafe impl Send for Coll {}

fn rendezvous(ready: &AtomicUsize, n: usize) {
    ready.fetch_add(1, SeqCst);
    let start = Instant::now();
    while ready.load(SeqCst) < n {
        if start.elapsed() > Duration::from_secs(30) {
            return;
        }
        std::hint::spin_loop();
    }
}

fn spin(n: usize) {
    for _ in 0..n {
        std::hint::spin_loop();
    }
}

/// drops `x` on a helper thread; false if that does not terminate
fn drop_terminates<T: Send + 'static>(x: T) -> bool {
    let (tx, rx) = mpsc::channel();
    std::thread::spawn(move || {
        drop(x);
        let _ = tx.send(());
    });
    rx.recv_timeout(Duration::from_secs(20)).is_ok()
}

/// polls until `want` items arrived and the stream ended; bounded
fn drain(c: &mut Coll, w: &Waker, want: usize) -> Result<(), String> {
    let mut got = 0;
    for _ in 0..(want + 70) * 4 {
        match c.poll(w) {
            Poll::Ready(Some(_)) => got += 1,
            Poll::Ready(None) => {
                return if got == want { Ok(()) } else { Err(format!("stream ended after {got} of {want} items")) };
            }
            Poll::Pending => {}
        }
    }
    Err(format!("stream did not end ({got} of {want} items after {} polls)", (want + 70) * 4))
}

fn same_slot(round: usize) -> bool {
    let threads = 3;
    let tw = Arc::new(CountWaker(AtomicUsize::new(0)));
    let w = Waker::from(tw.clone());
    let (x, y) = (Arc::new(Ctl::default()), Arc::new(Ctl::default()));
    let mut c = Coll::new(round);
    let name = c.name();
    c.push(Child(x.clone(), 1));
    c.push(Child(y.clone(), 2));
    if c.poll(&w) != Poll::Pending {
        fail(format!("same-slot round {round}: first poll of {name} did not return Pending"));
        return false;
    }
    let cw = match x.waker.lock().unwrap().take() {
        Some(cw) => cw,
        None => {
            fail(format!("same-slot round {round}: the child was not polled"));
            return false;
        }
    };
    let ready = AtomicUsize::new(0);
    std::thread::scope(|s| {
        for t in 0..threads {
            let cw = cw.clone();
            let ready = &ready;
            s.spawn(move || {
                rendezvous(ready, threads);
                spin((round + t * 7) % 16);
                if (round / 2 + t) % 2 == 0 {
                    cw.wake();
                } else {
                    cw.wake_by_ref();
                }
            });
        }
    });
    x.polls.store(0, SeqCst);
    y.polls.store(0, SeqCst);
    let r = c.poll(&w);
    let (px, py) = (x.polls.load(SeqCst), y.polls.load(SeqCst));
    let mut ok = true;
    if r != Poll::Pending || px != 1 || py != 0 {
        fail(format!(
            "same-slot round {round} ({name}): after {threads} concurrent invocations of one pending child's waker a single poll_next polled that child {px} times and its sibling {py} times (expected 1 and 0) and returned {r:?}"
        ));
        ok = false;
    }
    // everything still completes and can be released
    x.done.store(true, SeqCst);
    y.done.store(true, SeqCst);
    cw.wake_by_ref();
    if let Some(yw) = y.waker.lock().unwrap().take() {
        yw.wake();
    }
    let (tx, rx) = mpsc::channel();
    let w2 = w.clone();
    let h = std::thread::spawn(move || {
        let r = drain(&mut c, &w2, 2);
        let _ = tx.send(r.clone());
        (c, r)
    });
    match rx.recv_timeout(Duration::from_secs(20)) {
        Ok(Ok(())) => {}
        Ok(Err(e)) => {
            if ok {
                fail(format!("same-slot round {round} ({name}): {e}"));
            }
            ok = false;
        }
        Err(_) => {
            fail(format!("same-slot round {round} ({name}): draining the collection did not terminate"));
            return false; // the thread is left behind
        }
    }
    let (c, _) = h.join().unwrap();
    if x.again.load(SeqCst) || y.again.load(SeqCst) {
        fail(format!("same-slot round {round} ({name}): a child was polled again after it had completed"));
        ok = false;
    }
    let parked = x.waker.lock().unwrap().take();
    if !drop_terminates((c, cw, parked)) {
        fail(format!("same-slot round {round} ({name}): dropping the collection and its wakers did not terminate"));
        return false;
    }
    if live_blocks() != 0 {
        fail(format!("same-slot round {round} ({name}): a waker block is still allocated after its last owner is gone"));
        forget_blocks();
        ok = false;
    }
    ok
}

fn lost_wake(round: usize) -> bool {
    let tw = Arc::new(CountWaker(AtomicUsize::new(0)));
    let w = Waker::from(tw.clone());
    let (x, y) = (Arc::new(Ctl::default()), Arc::new(Ctl::default()));
    let mut c = Coll::new(round);
    let name = c.name();
    c.push(Child(x.clone(), 1));
    c.push(Child(y.clone(), 2));
    if c.poll(&w) != Poll::Pending {
        fail(format!("lost-wake round {round}: first poll of {name} did not return Pending"));
        return false;
    }
    let cw = x.waker.lock().unwrap().take().expect("polled");
    let seen = tw.0.load(SeqCst);
    let ready = AtomicUsize::new(0);
    let mut ok = true;
    std::thread::scope(|s| {
        let xr = &x;
        let cwr = &cw;
        let readyr = &ready;
        s.spawn(move || {
            rendezvous(readyr, 2);
            spin(round % 32);
            xr.done.store(true, SeqCst);
            if round % 3 == 0 {
                cwr.clone().wake();
            } else {
                cwr.wake_by_ref();
            }
        });
        rendezvous(&ready, 2);
        // the task: polled the moment its waker fires, and whenever it fires again
        let mut last = seen;
        let start = Instant::now();
        loop {
            let now = tw.0.load(SeqCst);
            if now != last {
                last = now;
                match c.poll(&w) {
                    Poll::Ready(Some(1)) => break,
                    Poll::Ready(other) => {
                        fail(format!("lost-wake round {round} ({name}): poll returned {other:?}"));
                        ok = false;
                        break;
                    }
                    Poll::Pending => {}
                }
            } else if start.elapsed() > Duration::from_secs(10) {
                fail(format!(
                    "lost-wake round {round} ({name}): a child was made ready and its waker invoked on another thread, the task was polled each of the {} times its waker fired, and 10 s later the item has not arrived: the wake-up is lost",
                    last - seen
                ));
                ok = false;
                break;
            } else {
                std::hint::spin_loop();
            }
        }
    });
    drop(cw);
    drop(c);
    *y.waker.lock().unwrap() = None;
    *x.waker.lock().unwrap() = None;
    if live_blocks() != 0 {
        fail(format!("lost-wake round {round} ({name}): a waker block is still allocated after its last owner is gone"));
        forget_blocks();
        ok = false;
    }
    ok
}

/// one child's waker is invoked over and over on another thread while the task polls over and
/// over; afterwards (no concurrency any more) the child is made ready and woken once: the item
/// must arrive
fn storm(round: usize) -> bool {
    let tw = Arc::new(CountWaker(AtomicUsize::new(0)));
    let w = Waker::from(tw.clone());
    let (x, y) = (Arc::new(Ctl::default()), Arc::new(Ctl::default()));
    let mut c = Coll::new(round);
    let name = c.name();
    c.push(Child(x.clone(), 1));
    c.push(Child(y.clone(), 2));
    if c.poll(&w) != Poll::Pending {
        fail(format!("storm round {round}: first poll of {name} did not return Pending"));
        return false;
    }
    let cw = x.waker.lock().unwrap().take().expect("polled");
    let ready = AtomicUsize::new(0);
    let stop = AtomicBool::new(false);
    let mut ok = true;
    std::thread::scope(|s| {
        let (cwr, readyr, stopr) = (&cw, &ready, &stop);
        s.spawn(move || {
            rendezvous(readyr, 2);
            for i in 0..400 {
                cwr.wake_by_ref();
                spin((round + i) % 8);
            }
            stopr.store(true, SeqCst);
        });
        rendezvous(&ready, 2);
        while !stop.load(SeqCst) {
            if c.poll(&w) != Poll::Pending {
                fail(format!("storm round {round} ({name}): a poll returned something although no child is ready"));
                ok = false;
                break;
            }
        }
    });
    if !ok {
        return false;
    }
    // quiescent now: whatever the storm left queued is consumed by these polls
    for _ in 0..3 {
        let _ = c.poll(&w);
    }
    x.done.store(true, SeqCst);
    cw.wake_by_ref();
    let mut got = false;
    for _ in 0..4 {
        if c.poll(&w) == Poll::Ready(Some(1)) {
            got = true;
            break;
        }
    }
    if !got {
        fail(format!(
            "storm round {round} ({name}): after a burst of concurrent invocations of one child's waker during polls, the child was made ready and its waker invoked once more (single-threaded): four polls later the item has not arrived - that invocation was ignored"
        ));
        ok = false;
    }
    drop(cw);
    drop(c);
    *x.waker.lock().unwrap() = None;
    *y.waker.lock().unwrap() = None;
    if live_blocks() != 0 {
        fail(format!("storm round {round} ({name}): a waker block is still allocated after its last owner is gone"));
        forget_blocks();
        ok = false;
    }
    ok
}

/// a task waker that holds the window open: its `wake_by_ref` (called by the crate from inside
/// a child waker's invocation on the notifying thread) waits until the main thread has dropped the
/// collection, and looks at its own reference count on entry and before it returns
struct GateWaker {
    in_notify: AtomicBool,
    dropped: AtomicBool,
    on_entry: AtomicUsize,
    on_exit: AtomicUsize,
}
impl Wake for GateWaker {
    fn wake(self: Arc<Self>) {
        Wake::wake_by_ref(&self)
    }
    fn wake_by_ref(self: &Arc<Self>) {
        if self.in_notify.swap(true, SeqCst) {
            return;
        }
        self.on_entry.store(Arc::strong_count(self), SeqCst);
        let start = Instant::now();
        while !self.dropped.load(SeqCst) && start.elapsed() < Duration::from_secs(5) {
            std::hint::spin_loop();
        }
        self.on_exit.store(Arc::strong_count(self), SeqCst);
    }
}

/// the collection is dropped while a child waker, invoked on another thread, is in the middle of
/// notifying the task: the registered task waker must stay alive until that invocation is over
fn notify_drop(round: usize) -> bool {
    let tw = Arc::new(GateWaker {
        in_notify: AtomicBool::new(false),
        dropped: AtomicBool::new(false),
        on_entry: AtomicUsize::new(0),
        on_exit: AtomicUsize::new(0),
    });
    let w = Waker::from(tw.clone());
    let (x, y) = (Arc::new(Ctl::default()), Arc::new(Ctl::default()));
    let mut c = Coll::new(round);
    let name = c.name();
    c.push(Child(x.clone(), 1));
    c.push(Child(y.clone(), 2));
    if c.poll(&w) != Poll::Pending {
        fail(format!("notify-drop round {round}: first poll of {name} did not return Pending"));
        return false;
    }
    let cw = x.waker.lock().unwrap().take().expect("polled");
    // (the sibling's waker stays alive as well: no waker block loses its last owner in the window,
    // so no registered clone of the task waker may be released in it)
    let mut ok = true;
    std::thread::scope(|s| {
        let cwr = &cw;
        s.spawn(move || {
            cwr.wake_by_ref();
        });
        let start = Instant::now();
        while !tw.in_notify.load(SeqCst) && start.elapsed() < Duration::from_secs(5) {
            std::hint::spin_loop();
        }
        if !tw.in_notify.load(SeqCst) {
            fail(format!("notify-drop round {round} ({name}): a child waker was invoked on another thread while the task slept and the task waker was not invoked within 5 s"));
            ok = false;
        }
        drop(c);
        tw.dropped.store(true, SeqCst);
    });
    let (a, b) = (tw.on_entry.load(SeqCst), tw.on_exit.load(SeqCst));
    if ok && b < a {
        fail(format!(
            "notify-drop round {round} ({name}): the collection was dropped while a child waker was notifying the task on another thread, and the registered task waker was released under that invocation (its reference count went from {a} to {b} while its wake_by_ref was running)"
        ));
        ok = false;
    }
    drop(cw);
    *y.waker.lock().unwrap() = None;
    if live_blocks() != 0 {
        fail(format!("notify-drop round {round} ({name}): a waker block is still allocated after its last owner is gone"));
        forget_blocks();
        ok = false;
    }
    ok
}

fn owners(round: usize) -> bool {
    let tw = Arc::new(CountWaker(AtomicUsize::new(0)));
    let w = Waker::from(tw.clone());
    let (x, y) = (Arc::new(Ctl::default()), Arc::new(Ctl::default()));
    let mut c = Coll::new(round);
    let name = c.name();
    c.push(Child(x.clone(), 1));
    c.push(Child(y.clone(), 2));
    if c.poll(&w) != Poll::Pending {
        fail(format!("owners round {round}: first poll of {name} did not return Pending"));
        return false;
    }
    let xw = x.waker.lock().unwrap().take().expect("polled");
    let yw = y.waker.lock().unwrap().take().expect("polled");
    let extra = xw.clone();
    let before = FAILS.lock().map(|f| f.len()).unwrap_or(0);
    let ready = AtomicUsize::new(0);
    std::thread::scope(|s| {
        let readyr = &ready;
        s.spawn(move || {
            rendezvous(readyr, 4);
            spin(round % 24);
            if round % 2 == 0 {
                xw.wake();
            } else {
                drop(xw);
            }
        });
        s.spawn(move || {
            rendezvous(readyr, 4);
            spin((round / 3) % 24);
            drop(yw);
        });
        s.spawn(move || {
            rendezvous(readyr, 4);
            spin((round / 5) % 24);
            if round % 4 < 2 {
                drop(extra);
            } else {
                extra.wake();
            }
        });
        rendezvous(&ready, 4);
        spin((round / 7) % 24);
        drop(c);
    });
    let mut ok = FAILS.lock().map(|f| f.len()).unwrap_or(0) == before;
    if live_blocks() != 0 {
        fail(format!("owners round {round} ({name}): a waker block is still allocated after the collection and every waker were dropped"));
        forget_blocks();
        ok = false;
    }
    ok
}

/// (scenario, round, when it started): the watchdog ends the run when a round does not finish
static CURRENT: Mutex<Option<(&'static str, usize, Instant)>> = Mutex::new(None);

fn write_report(out: &str, rounds: [usize; 5], secs: u64) -> bool {
    let fails = FAILS.lock().map(|f| f.clone()).unwrap_or_default();
    let mut text = String::new();
    for f in &fails {
        text.push_str(&format!("stress VIOLATION {f}\n"));
    }
    text.push_str(&format!(
        "stress rounds same-slot={} lost-wake={} owners={} storm={} notify-drop={} failures={} seconds={}\n",
        rounds[0],
        rounds[1],
        rounds[2],
        rounds[3],
        rounds[4],
        fails.len(),
        secs
    ));
    if let Ok(mut f) = std::fs::File::create(out) {
        let _ = f.write_all(text.as_bytes());
    }
    fails.is_empty()
}

pub fn run(secs: u64, out: &str) -> bool {
    let _ = std::fs::remove_file(out);
    if let Ok(mut o) = OUT.lock() {
        *o = Some(out.to_string());
    }
    forget_blocks();
    set_hook(Some(hook));
    let start = Instant::now();
    let names = ["same-slot", "lost-wake", "owners", "storm", "notify-drop"];
    {
        // a round that does not come back (the crate spins on a corrupted queue, a drop that never
        // ends on the main thread): report it and end the process
        let out = out.to_string();
        std::thread::spawn(move || loop {
            std::thread::sleep(Duration::from_millis(500));
            let stuck = CURRENT.lock().ok().and_then(|c| *c).filter(|(_, _, t)| t.elapsed() > Duration::from_secs(60));
            if let Some((n, r, _)) = stuck {
                fail(format!("{n} round {r}: an operation of the crate did not return within 60 s (the thread is spinning or blocked inside the crate)"));
                write_report(&out, [r, r, r, r, r], start.elapsed().as_secs());
                std::process::exit(1);
            }
        });
    }
    let mut rounds = [0usize; 5];
    let mut bad = [0usize; 5];
    let mut r = 0usize;
    while start.elapsed() < Duration::from_secs(secs) {
        for (i, f) in [same_slot as fn(usize) -> bool, lost_wake, owners, storm, notify_drop].iter().enumerate() {
            if bad[i] >= 3 {
                continue; // enough of this kind
            }
            rounds[i] += 1;
            if let Ok(mut c) = CURRENT.lock() {
                *c = Some((names[i], r, Instant::now()));
            }
            if !f(r) {
                bad[i] += 1;
            }
        }
        r += 1;
        if bad.iter().all(|b| *b >= 3) {
            break;
        }
    }
    if let Ok(mut c) = CURRENT.lock() {
        *c = None;
    }
    set_hook(None);
    write_report(out, rounds, start.elapsed().as_secs())
}
