//! Parsing of the history language (FORMAT.md §1).

use std::collections::BTreeMap;

#[derive(Clone, Copy, Debug, PartialEq, Eq)]
pub enum Act {
    /// `s`: `cw.wake_by_ref()`
    SelfWake,
    /// `c`: `H.push(Some(cw.clone()))`
    CloneCw,
    /// `w<h>`: `H[h].wake_by_ref()`
    WakeRef(usize),
    /// `W<h>`: take `H[h]`, `wake()`
    Wake(usize),
    /// `d<h>`: take `H[h]`, drop
    Drop(usize),
    /// `k<h>`: `H.push(Some(H[h].clone()))`
    CloneH(usize),
}

#[derive(Clone, Copy, Debug, PartialEq, Eq)]
pub enum Res {
    P,
    R,
    X,
    I,
    E,
}

impl Res {
    pub fn letter(self) -> char {
        match self {
            Res::P => 'P',
            Res::R => 'R',
            Res::X => 'X',
            Res::I => 'I',
            Res::E => 'E',
        }
    }
}

#[derive(Clone, Debug)]
pub struct Step {
    pub acts: Vec<Act>,
    pub res: Res,
}

pub type Script = Vec<Step>;

#[derive(Clone, Debug)]
pub enum UpStep {
    Item(Script),
    Pend(Vec<Act>),
    Err,
    End,
}

pub fn parse_act(s: &str) -> Result<Act, String> {
    let mut it = s.chars();
    let c = it.next().ok_or_else(|| "empty action".to_string())?;
    let rest = it.as_str();
    let num = |rest: &str| -> Result<usize, String> {
        rest.parse::<usize>()
            .map_err(|_| format!("bad handle index in action `{s}`"))
    };
    match c {
        's' if rest.is_empty() => Ok(Act::SelfWake),
        'c' if rest.is_empty() => Ok(Act::CloneCw),
        'w' => Ok(Act::WakeRef(num(rest)?)),
        'W' => Ok(Act::Wake(num(rest)?)),
        'd' => Ok(Act::Drop(num(rest)?)),
        'k' => Ok(Act::CloneH(num(rest)?)),
        _ => Err(format!("unknown action `{s}`")),
    }
}

/// `acts := '' | act ('.' act)*`; `-` is accepted as the empty list as well.
pub fn parse_acts(s: &str) -> Result<Vec<Act>, String> {
    if s.is_empty() || s == "-" {
        return Ok(Vec::new());
    }
    s.split('.').map(parse_act).collect()
}

/// `script := '-' | step (';' step)*`, `step := acts ':' res`
pub fn parse_script(s: &str) -> Result<Script, String> {
    if s == "-" || s.is_empty() {
        return Ok(Vec::new());
    }
    let mut out = Vec::new();
    for st in s.split(';') {
        let (acts, res) = st
            .rsplit_once(':')
            .ok_or_else(|| format!("step `{st}` has no `:`"))?;
        let res = match res {
            "P" => Res::P,
            "R" => Res::R,
            "X" => Res::X,
            "I" => Res::I,
            "E" => Res::E,
            _ => return Err(format!("unknown result `{res}` in step `{st}`")),
        };
        out.push(Step {
            acts: parse_acts(acts)?,
            res,
        });
    }
    Ok(out)
}

/// the part of an `up ...` line after `up `
pub fn parse_up(rest: &str) -> Result<UpStep, String> {
    let mut it = rest.split(' ').filter(|t| !t.is_empty());
    let kind = it.next().ok_or_else(|| "`up` without a kind".to_string())?;
    let arg = it.next();
    match kind {
        "item" => Ok(UpStep::Item(parse_script(arg.unwrap_or("-"))?)),
        "pend" => Ok(UpStep::Pend(parse_acts(arg.unwrap_or("-"))?)),
        "err" => Ok(UpStep::Err),
        "end" => Ok(UpStep::End),
        _ => Err(format!("unknown upstream step kind `{kind}`")),
    }
}

#[derive(Clone, Copy, Debug, PartialEq, Eq)]
pub enum Ty {
    Fub,
    Fu,
    Mb,
    Mu,
    Fob,
    Fo,
    Bu,
    Bo,
    Tbu,
    Tbo,
    Fec,
    Ja,
    Tja,
}

impl Ty {
    pub fn is_adapter(self) -> bool {
        matches!(self, Ty::Bu | Ty::Bo | Ty::Tbu | Ty::Tbo | Ty::Fec)
    }
}

#[derive(Clone, Debug)]
pub struct Spec {
    pub ty: Ty,
    pub params: BTreeMap<String, String>,
}

impl Spec {
    pub fn flag(&self, k: &str) -> bool {
        matches!(self.params.get(k).map(|s| s.as_str()), Some(v) if v != "0")
    }
    pub fn num(&self, k: &str) -> Result<Option<u64>, String> {
        match self.params.get(k) {
            None => Ok(None),
            Some(v) => v
                .parse::<u64>()
                .map(Some)
                .map_err(|_| format!("parameter {k}={v} is not a number")),
        }
    }
}

/// the part of a `new ...` line after `new `
pub fn parse_new(rest: &str) -> Result<Spec, String> {
    let mut it = rest.split(' ').filter(|t| !t.is_empty());
    let ty = match it.next().ok_or_else(|| "`new` without a type".to_string())? {
        "FUB" => Ty::Fub,
        "FU" => Ty::Fu,
        "MB" => Ty::Mb,
        "MU" => Ty::Mu,
        "FOB" => Ty::Fob,
        "FO" => Ty::Fo,
        "BU" => Ty::Bu,
        "BO" => Ty::Bo,
        "TBU" => Ty::Tbu,
        "TBO" => Ty::Tbo,
        "FEC" => Ty::Fec,
        "JA" => Ty::Ja,
        "TJA" => Ty::Tja,
        t => return Err(format!("unknown type `{t}`")),
    };
    let mut params = BTreeMap::new();
    for kv in it {
        let (k, v) = kv
            .split_once('=')
            .ok_or_else(|| format!("parameter `{kv}` is not k=v"))?;
        params.insert(k.to_string(), v.to_string());
    }
    Ok(Spec { ty, params })
}

#[derive(Clone, Debug, Default)]
pub struct Inj {
    pub reg: Vec<(usize, Vec<Act>)>,
    pub mid: Vec<(usize, Vec<Act>)>,
    pub exit: Vec<(usize, Vec<Act>)>,
    pub inc: Vec<usize>,
}

#[derive(Clone, Debug)]
pub enum Op {
    Push { cid: u32, script: Script, front: bool },
    TryPush { cid: u32, script: Script, front: bool },
    Poll { wid: u32, inj: Inj },
    Env(Act),
    Obs,
    Move,
    DropColl,
    Cleanup,
}

fn parse_inj(tok: &str, inj: &mut Inj) -> Result<(), String> {
    let (point, rest) = tok
        .split_once('#')
        .ok_or_else(|| format!("injection `{tok}` has no `#`"))?;
    let idx = |s: &str| -> Result<usize, String> {
        s.parse::<usize>()
            .map_err(|_| format!("bad index in injection `{tok}`"))
    };
    if point == "inc" {
        // tolerate a trailing `=...`
        let k = rest.split_once('=').map_or(rest, |(k, _)| k);
        inj.inc.push(idx(k)?);
        return Ok(());
    }
    let (k, acts) = rest
        .split_once('=')
        .ok_or_else(|| format!("injection `{tok}` has no `=`"))?;
    let entry = (idx(k)?, parse_acts(acts)?);
    match point {
        "reg" => inj.reg.push(entry),
        "mid" => inj.mid.push(entry),
        "exit" => inj.exit.push(entry),
        _ => return Err(format!("unknown injection point `{point}`")),
    }
    Ok(())
}

/// `Ok(None)`: not an op keyword this harness knows.
pub fn parse_op(line: &str) -> Result<Option<Op>, String> {
    let mut it = line.split(' ').filter(|t| !t.is_empty());
    let kw = match it.next() {
        Some(k) => k,
        None => return Ok(None),
    };
    let cid_script = |it: &mut dyn Iterator<Item = &str>| -> Result<(u32, Script), String> {
        let cid = it
            .next()
            .ok_or_else(|| format!("`{kw}` without a child id"))?
            .parse::<u32>()
            .map_err(|_| format!("`{kw}`: bad child id"))?;
        let script = parse_script(it.next().unwrap_or("-"))?;
        Ok((cid, script))
    };
    let op = match kw {
        "push" | "pushf" => {
            let (cid, script) = cid_script(&mut it)?;
            Op::Push {
                cid,
                script,
                front: kw == "pushf",
            }
        }
        "trypush" | "trypushf" => {
            let (cid, script) = cid_script(&mut it)?;
            Op::TryPush {
                cid,
                script,
                front: kw == "trypushf",
            }
        }
        "poll" => {
            let wid = it
                .next()
                .ok_or_else(|| "`poll` without a waker id".to_string())?
                .parse::<u32>()
                .map_err(|_| "`poll`: bad waker id".to_string())?;
            let mut inj = Inj::default();
            for tok in it {
                parse_inj(tok, &mut inj)?;
            }
            Op::Poll { wid, inj }
        }
        "env" => {
            let a = it
                .next()
                .ok_or_else(|| "`env` without an action".to_string())?;
            Op::Env(parse_act(a)?)
        }
        "obs" => Op::Obs,
        "move" => Op::Move,
        "dropcoll" => Op::DropColl,
        "cleanup" => Op::Cleanup,
        _ => return Ok(None),
    };
    Ok(Some(op))
}
