//! Global allocator wrapper, the "where is control" depth counters and the quarantine of
//! waker blocks.
//!
//! Nothing in this file allocates, locks or panics: it is reachable from inside
//! `GlobalAlloc` methods.

use std::alloc::{GlobalAlloc, Layout, System};
use std::sync::atomic::{AtomicBool, AtomicUsize, Ordering::Relaxed};

/// depth of harness -> crate calls currently active
pub static IN_CRATE: AtomicUsize = AtomicUsize::new(0);
/// depth of crate -> harness callbacks active *since the innermost harness -> crate call*
pub static IN_CALLBACK: AtomicUsize = AtomicUsize::new(0);
/// depth of harness-issued calls on a child waker / handle (scripted `s w W ...`, env, injections)
pub static IN_CHILD_WAKER_CALL: AtomicUsize = AtomicUsize::new(0);
/// the harness is dropping values it received from the crate (`odrop .. out`)
pub static DROPPING_OUT: AtomicBool = AtomicBool::new(false);
/// calls of alloc / alloc_zeroed / realloc made while control was inside the crate (per op)
pub static ALLOC_COUNT: AtomicUsize = AtomicUsize::new(0);
/// child / source / upstream polls in the current op (watchdog)
pub static POLLS_IN_OP: AtomicUsize = AtomicUsize::new(0);

/// a panic is in flight (set by the panic hook, cleared when the op is over): the panic
/// runtime's own allocations (payload, exception object) are not the crate's
pub static PANICKING: AtomicBool = AtomicBool::new(false);

/// byte written over every allocation made from inside the crate, so that a read of
/// uninitialised memory by a broken crate is at least deterministic
pub const FILL: u8 = 0xA5;

pub const MAX_Q: usize = 4096;
static Q_LEN: AtomicUsize = AtomicUsize::new(0);
static Q_BASE: [AtomicUsize; MAX_Q] = [const { AtomicUsize::new(0) }; MAX_Q];
/// 0 = not released by the crate yet; otherwise the size of the layout it was released with
static Q_SIZE: [AtomicUsize; MAX_Q] = [const { AtomicUsize::new(0) }; MAX_Q];
static Q_ALIGN: [AtomicUsize; MAX_Q] = [const { AtomicUsize::new(0) }; MAX_Q];

#[inline]
fn counting() -> bool {
    IN_CRATE.load(Relaxed) > 0 && IN_CALLBACK.load(Relaxed) == 0 && !PANICKING.load(Relaxed)
}

pub struct HarnessAlloc;

unsafe impl GlobalAlloc for HarnessAlloc {
    unsafe fn alloc(&self, layout: Layout) -> *mut u8 {
        let p = unsafe { System.alloc(layout) };
        if counting() {
            ALLOC_COUNT.fetch_add(1, Relaxed);
            if !p.is_null() {
                unsafe { std::ptr::write_bytes(p, FILL, layout.size()) };
            }
        }
        p
    }

    unsafe fn alloc_zeroed(&self, layout: Layout) -> *mut u8 {
        if counting() {
            ALLOC_COUNT.fetch_add(1, Relaxed);
        }
        unsafe { System.alloc_zeroed(layout) }
    }

    unsafe fn realloc(&self, ptr: *mut u8, layout: Layout, new_size: usize) -> *mut u8 {
        if counting() {
            ALLOC_COUNT.fetch_add(1, Relaxed);
        }
        unsafe { System.realloc(ptr, layout, new_size) }
    }

    unsafe fn dealloc(&self, ptr: *mut u8, layout: Layout) {
        if quarantine(ptr as usize, layout) {
            return;
        }
        unsafe { System.dealloc(ptr, layout) }
    }
}

/// `true` if `addr` is the base of a registered waker block: the memory is kept.
fn quarantine(addr: usize, layout: Layout) -> bool {
    let n = Q_LEN.load(Relaxed).min(MAX_Q);
    let mut i = n;
    while i > 0 {
        i -= 1;
        if Q_BASE[i].load(Relaxed) == addr {
            if Q_SIZE[i].load(Relaxed) == 0 {
                Q_ALIGN[i].store(layout.align(), Relaxed);
                // size >= 1 for every waker block (header is not zero sized)
                Q_SIZE[i].store(layout.size().max(1), Relaxed);
                // the crate has released the block: nothing may write into it any more
                unsafe { std::ptr::write_bytes(addr as *mut u8, POISON, layout.size()) };
            }
            return true;
        }
    }
    false
}

/// byte written over a waker block when the crate releases it (the memory is kept until the
/// end of the history)
pub const POISON: u8 = 0xDD;

/// A write into a released waker block: `(base of the block, offset of the first changed
/// byte)`.  The byte is poisoned again so that every stray write is reported once.
pub fn poison_damage() -> Option<(usize, usize)> {
    let n = Q_LEN.load(Relaxed).min(MAX_Q);
    for i in 0..n {
        let size = Q_SIZE[i].load(Relaxed);
        let base = Q_BASE[i].load(Relaxed);
        if size == 0 || base == 0 || Q_ALIGN[i].load(Relaxed) == 0 {
            continue;
        }
        let mut off = 0;
        while off < size {
            let p = (base + off) as *mut u8;
            if unsafe { std::ptr::read_volatile(p) } != POISON {
                let mut k = off;
                while k < size {
                    unsafe { std::ptr::write_volatile((base + k) as *mut u8, POISON) };
                    k += 1;
                }
                return Some((base, off));
            }
            off += 1;
        }
    }
    None
}

/// Register the base of a freshly allocated waker block (called from the probe hook).
/// Beyond `MAX_Q` blocks per history the block is simply not quarantined.
pub fn register_block(base: usize) {
    let i = Q_LEN.load(Relaxed);
    if i < MAX_Q {
        Q_SIZE[i].store(0, Relaxed);
        Q_ALIGN[i].store(0, Relaxed);
        Q_BASE[i].store(base, Relaxed);
        Q_LEN.store(i + 1, Relaxed);
    }
}

/// End of a history: really release the blocks the crate had released, forget the rest.
///
/// Must only be called when nothing that may still point into those blocks will ever be
/// touched again (all handles and the collection dropped or forgotten).
pub fn release_quarantine() {
    let n = Q_LEN.load(Relaxed).min(MAX_Q);
    // empty the table first so that the deallocations below are forwarded
    Q_LEN.store(0, Relaxed);
    for i in 0..n {
        let base = Q_BASE[i].swap(0, Relaxed);
        let size = Q_SIZE[i].swap(0, Relaxed);
        let align = Q_ALIGN[i].swap(0, Relaxed);
        if size != 0 && base != 0 && align != 0 {
            unsafe {
                System.dealloc(
                    base as *mut u8,
                    Layout::from_size_align_unchecked(size, align),
                )
            };
        }
    }
}

/// RAII: control passes from the harness into the crate.
pub struct CrateGuard {
    saved_cb: usize,
}

impl CrateGuard {
    #[inline]
    pub fn enter() -> Self {
        IN_CRATE.fetch_add(1, Relaxed);
        let saved_cb = IN_CALLBACK.swap(0, Relaxed);
        CrateGuard { saved_cb }
    }
}

impl Drop for CrateGuard {
    #[inline]
    fn drop(&mut self) {
        IN_CALLBACK.store(self.saved_cb, Relaxed);
        let d = IN_CRATE.load(Relaxed);
        IN_CRATE.store(d.saturating_sub(1), Relaxed);
    }
}

/// RAII: control passes from the crate into the harness (or the harness does bookkeeping
/// that must not be attributed to the crate).
pub struct CbGuard;

impl CbGuard {
    #[inline]
    pub fn enter() -> Self {
        IN_CALLBACK.fetch_add(1, Relaxed);
        CbGuard
    }
}

impl Drop for CbGuard {
    #[inline]
    fn drop(&mut self) {
        let d = IN_CALLBACK.load(Relaxed);
        IN_CALLBACK.store(d.saturating_sub(1), Relaxed);
    }
}

/// RAII: the harness is calling a child waker / handle.
pub struct ChildWakerGuard;

impl ChildWakerGuard {
    #[inline]
    pub fn enter() -> Self {
        IN_CHILD_WAKER_CALL.fetch_add(1, Relaxed);
        ChildWakerGuard
    }
}

impl Drop for ChildWakerGuard {
    #[inline]
    fn drop(&mut self) {
        let d = IN_CHILD_WAKER_CALL.load(Relaxed);
        IN_CHILD_WAKER_CALL.store(d.saturating_sub(1), Relaxed);
    }
}

/// Run `f` as a call into the crate's API.
#[inline]
pub fn in_crate<R>(f: impl FnOnce() -> R) -> R {
    let _g = CrateGuard::enter();
    f()
}

/// Run `f` as a harness-issued call on a child waker / handle (which is crate code when
/// the waker is one of the crate's).
#[inline]
pub fn waker_call<R>(f: impl FnOnce() -> R) -> R {
    let _w = ChildWakerGuard::enter();
    let _g = CrateGuard::enter();
    f()
}

/// After a caught panic: every guard has been unwound, make sure of it.
pub fn reset_depths() {
    IN_CRATE.store(0, Relaxed);
    IN_CALLBACK.store(0, Relaxed);
    IN_CHILD_WAKER_CALL.store(0, Relaxed);
    DROPPING_OUT.store(false, Relaxed);
    PANICKING.store(false, Relaxed);
}
