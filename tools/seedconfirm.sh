#!/bin/sh
# usage: [SEEDSRC=dir] seedconfirm.sh <PROP> <LETTER>   -- confirms a sub-agent's seeded change in a scratch worktree
# (suite passes with the change; demo fails with it and passes without) and files it under /verif/seeded/
p=$1; v=$2
src=${SEEDSRC:-/tmp/wt_$p/seeded_out}
id=${p}_$v
out=/verif/seeded/$id
sv=/tmp/sv_$id
mkdir -p $out
git -C /repo worktree add -q --detach $sv HEAD || exit 2
cd $sv
export CARGO_NET_OFFLINE=true CARGO_TARGET_DIR=/tmp/sv_target_$p
cp $src/seeded_$v.rs tests/seeded_$v.rs
r_without=$(timeout 900 cargo test --offline --test seeded_$v 2>&1 | grep -E "^test result" | head -1)
git apply $src/$v.diff || { echo "patch does not apply" > $out/confirm.txt; cd /; git -C /repo worktree remove --force $sv; exit 3; }
r_with=$(timeout 900 cargo test --offline --test seeded_$v 2>&1 | grep -E "^test result|panicked|FAILED" | head -3 | tr '\n' ' ')
rm tests/seeded_$v.rs
r_suite=$(timeout 1800 cargo nextest run --workspace --no-fail-fast --offline --test-threads 8 2>&1 | grep -E "Summary|tests run" | head -1)
cd /
cp $src/$v.diff $out/patch.diff; cp $src/seeded_$v.rs $out/demo.rs; cp $src/$v.md $out/agent_notes.md
printf 'demo without change: %s\ndemo with change: %s\nsuite with change: %s\n' "$r_without" "$r_with" "$r_suite" > $out/confirm.txt
git -C /repo worktree remove --force $sv
cat $out/confirm.txt
