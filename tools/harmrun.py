#!/usr/bin/env python3
"""Development helper (not a registered check): run every quick check against a behaviour-preserving
change (/verif/harmless/<id>/patch.diff) in an isolated copy of /verif and a scratch worktree of /repo.
No check may raise an alarm.  usage: harmrun.py <id> [<id> ...]   writes harmless/<id>/detect.json"""
import json, os, subprocess, sys
sys.path.insert(0, os.path.dirname(os.path.abspath(__file__)))
import seedrun
from seedrun import sh, V, R, PROPS

def run(hid):
    d = "/verif/harmless/%s" % hid
    sh("git -C %s checkout -- . ; git -C %s clean -fdq" % (R, R))
    r = sh("git -C %s apply %s/patch.diff" % (R, d))
    if r.returncode:
        print(hid, "patch failed", r.stdout); return
    env = dict(os.environ, VERIF_REPO=R)
    procs = {p: subprocess.Popen("cd %s && ./check %s --tier quick" % (V, p), shell=True, env=env,
                                 stdout=subprocess.PIPE, stderr=subprocess.STDOUT, text=True) for p in PROPS}
    res = {}
    for p, pr in procs.items():
        out = pr.communicate()[0]
        res[p] = {"exit": pr.returncode, "lines": [l for l in out.splitlines() if "VIOLATION" in l][:4]}
    json.dump(res, open(d + "/detect.json", "w"), indent=1)
    bad = {p: res[p]["lines"] for p in PROPS if res[p]["exit"] != 0 or res[p]["lines"]}
    print(hid, "ALARMS:" if bad else "quiet", json.dumps(bad) if bad else "", flush=True)
    for p in bad:
        sh("mkdir -p %s/alarm; cp %s/replays/%s-* %s/alarm/ 2>/dev/null" % (d, V, p, d))
    sh("git -C %s checkout -- ." % R)

if __name__ == "__main__":
    seedrun.prepare()
    for s in sys.argv[1:]:
        run(s)
