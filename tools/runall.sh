#!/bin/sh
# convenience: run every check and summarise.  quick: all 18 in parallel; thorough: three at a time
# (each thorough check already uses 8 worker processes for the level-2 enumeration)
cd "$(dirname "$0")/.."
tier=${1:-quick}
one() {
  p=$1
  ./check $p --tier $tier > work/run_$p.log 2>&1
  echo "$p exit=$? $(grep -c VIOLATION work/run_$p.log) $(grep -E 'VIOLATION|KNOWN' work/run_$p.log | head -3 | tr '\n' ' ')"
}
if [ "$tier" = quick ]; then
  for p in C01 C02 C03 C04 C05 C06 C07 C08 C09 C10 C11 C12 C13 C14 C15 C16 C17 C18; do one $p & done
  wait
else
  for g in "C01 C02 C03" "C04 C05 C06" "C07 C08 C09" "C10 C11 C12" "C13 C14 C15" "C16 C17 C18"; do
    for p in $g; do one $p & done
    wait
  done
fi
