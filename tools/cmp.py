#!/usr/bin/env python3
"""compare implementation and model traces under a projection.
usage: cmp.py PROP impl.trace model.trace [--show N]"""
import sys, json
sys.path.insert(0, __file__.rsplit("/", 1)[0])
from tracelib import *

def compare(prop, impl_path, model_path):
    a = read_traces(impl_path); b = read_traces(model_path)
    bad = []
    for n in a:
        if n not in b:
            bad.append((n, 0, ["<missing in model>"])); continue
        na, nb = normalise(a[n]), normalise(b[n])
        if prop == "C18":
            ex = alloc_excess(na, nb)
            if ex:
                bad.append((n, 0, ["%s: impl %d > model %d" % e for e in ex[:3]]))
            continue
        x = project(na, prop); y = project(nb, prop)
        d = first_diff(x, y)
        if d is not None:
            ctx = []
            for i in range(max(0, d - 6), min(max(len(x), len(y)), d + 4)):
                ctx.append("%s %-40s | %s" % (">>" if i == d else "  ", x[i] if i < len(x) else "--", y[i] if i < len(y) else "--"))
            bad.append((n, d, ctx))
    return len(a), bad

if __name__ == "__main__":
    prop, ip, mp = sys.argv[1:4]
    show = int(sys.argv[5]) if len(sys.argv) > 5 else 5
    n, bad = compare(prop, ip, mp)
    print("%d histories, %d differ" % (n, len(bad)))
    for name, d, ctx in bad[:show]:
        print("==", name, "first diff at", d)
        print("\n".join(ctx))
