#!/usr/bin/env python3
"""Small-scope exhaustive history enumerator (format: docs/FORMAT.md).

Where tools/gen.py samples, this enumerates: for every collection / combinator type a few small
configurations and, for each, EVERY sequence of ops of a given length over a small alphabet
(polls with and without hook-point injections, environment wakes through cloned wakers, pushes of
a few child scripts, observers, drop); the sequences over the core alphabet read the observers
(len, is_empty, capacity, size_hint, is_terminated) after every op.  Nothing is random; the same arguments give the same file.
This is bounded exhaustive testing of the tie between model and code (and a search space for the
monitors), not a proof: the theorems are in coq/.

usage: smallscope.py --types FUB,FU,... --level 1|2|3 --out FILE [--stats FILE] [--shard i/n]
"""
import argparse, itertools, json

FUT = [":R", "c:P;:R", "s:P;:R"]              # completes at once / parks after cloning its waker / wakes itself once
FUT_TRY = FUT + [":X", "c:P;:X"]
SRC = [":I;:E", "c:P;:I;:E", ":E", "s:P;:I;c:P;:E"]

POLLS_FULL = ["poll 1", "poll 2", "poll 1 exit#1=w0", "poll 1 reg#1=w0", "poll 1 mid#1=w0", "poll 1 inc#1", "poll 1 exit#2=W1"]
POLLS_CORE = ["poll 1", "poll 1 exit#1=w0"]
ENV_FULL = ["env w0", "env W0", "env d0", "env w1", "env k0"]
ENV_CORE = ["env w0"]


def alphabet(typ, level, core):
    """op templates ({id} = a fresh child id)"""
    polls = POLLS_CORE if core else POLLS_FULL
    env = ENV_CORE if core else ENV_FULL
    ops = polls + env
    if typ in ("FUB", "FU", "FOB", "FO"):
        ops += ["push {id} c:P;:R", "push {id} :R"]
        if not core:
            ops += ["push {id} s:P;:R", "push {id} c:P;c:P;:R"]
        if typ in ("FOB", "FO"):
            ops += ["pushf {id} c:P;:R"] + ([] if core else ["pushf {id} :R"])
        if typ in ("FUB", "FOB") and not core:
            ops += ["trypush {id} :R"]
        if typ == "FOB" and not core:
            ops += ["trypushf {id} c:P;:R"]
    elif typ in ("MB", "MU"):
        ops += ["push {id} c:P;:I;:E", "push {id} :I;:E"]
        if not core:
            ops += ["push {id} :E", "push {id} :I;:I;c:P;:E"]
        if typ == "MB" and not core:
            ops += ["trypush {id} :I;:E"]
    if not core:
        ops += ["obs", "move"]
    ops += ["dropcoll"]
    return ops


def configs(typ, level):
    """(constructor line, init lines, upstream lines)"""
    out = []
    if typ == "FUB":
        out += [("new FUB cap=1", [], []), ("new FUB cap=2", [], [])]
        if level >= 2:
            out += [("new FUB iter=1", ["c:P;:R", ":R"], []), ("new FUB cap=0", [], []), ("new FUB iter=1 lazy=1", ["c:P;:R"], [])]
    elif typ == "FU":
        out += [("new FU cap=1", [], [])]
        if level >= 2:
            out += [("new FU cap=2", [], []), ("new FU new=1", [], []), ("new FU iter=1", ["c:P;:R", ":R", "c:P;:R"], [])]
    elif typ == "MB":
        out += [("new MB", ["c:P;:I;:E", ":I;:E"], [])]
        if level >= 2:
            out += [("new MB", [a, b], []) for a in SRC for b in SRC if (a, b) != ("c:P;:I;:E", ":I;:E")]
            out += [("new MB", [], []), ("new MB", ["c:P;:I;:E"], [])]
    elif typ == "MU":
        out += [("new MU cap=1", [], [])]
        if level >= 2:
            out += [("new MU cap=2", [], []), ("new MU iter=1", ["c:P;:I;:E", ":I;:E"], []), ("new MU new=1", [], [])]
    elif typ == "FOB":
        out += [("new FOB cap=2", [], [])]
        if level >= 2:
            out += [("new FOB cap=1", [], []), ("new FOB cap=2 seed=18446744073709551615", [], []),
                    ("new FOB cap=3 seed=9223372036854775807", [], []), ("new FOB iter=1", ["c:P;:R", ":R"], [])]
    elif typ == "FO":
        out += [("new FO cap=1", [], [])]
        if level >= 2:
            out += [("new FO cap=2 seed=18446744073709551615", [], []), ("new FO new=1", [], []),
                    ("new FO iter=1", ["c:P;:R", ":R", "c:P;:R"], []), ("new FO cap=1 seed=0", [], [])]
    elif typ in ("JA", "TJA"):
        scripts = FUT_TRY if typ == "TJA" else FUT
        ks = [2] if level == 1 else [0, 1, 2, 3]
        for k in ks:
            for tup in itertools.product(scripts, repeat=k):
                out.append(("new " + typ, list(tup), []))
                if level >= 3:
                    out.append(("new " + typ + " lazy=1", list(tup), []))
    else:  # adapters
        steps = ["item c:P;:R", "item :R", "pend s", "pend -"]
        if typ in ("TBU", "TBO"):
            steps += ["err", "item c:P;:X"]
        ns = [1, 2] if level >= 2 else [2]
        if level >= 3:
            ns = [0, 1, 2, 3]
        lens = [2] if level == 1 else [1, 2, 3]
        for n in ns:
            for ln in lens:
                for tup in itertools.product(steps, repeat=ln):
                    for end in (True, False):
                        if not end and level < 3 and ln < 3:
                            continue
                        out.append(("new %s n=%d" % (typ, n), [], ["up " + s for s in tup] + (["up end"] if end else [])))
    return out


def depth_plan(typ, level):
    """[(depth, core alphabet?)]"""
    if typ in ("JA", "TJA"):
        return {1: [(3, True)], 2: [(3, True)], 3: [(4, True), (3, False)]}[level]
    if typ in ("BU", "BO", "TBU", "TBO", "FEC"):
        return {1: [(3, True)], 2: [(4, True)], 3: [(5, True), (3, False)]}[level]
    if typ == "MB":
        return {1: [(3, True)], 2: [(3, True)], 3: [(4, True), (2, False)]}[level]
    return {1: [(3, True), (2, False)], 2: [(5, True), (3, False)], 3: [(6, True), (4, False)]}[level]


def histories(typ, level):
    for ci, (new, inits, ups) in enumerate(configs(typ, level)):
        for depth, core in depth_plan(typ, level):
            ops = alphabet(typ, level, core)
            for si, seq in enumerate(itertools.product(range(len(ops)), repeat=depth)):
                # nothing but env / poll makes sense after a drop: prune sequences that go on otherwise
                names = [ops[i] for i in seq]
                if "dropcoll" in names:
                    k = names.index("dropcoll")
                    if any(not (x.startswith("env") or x.startswith("poll 1") and " " not in x[6:]) for x in names[k + 1:]):
                        continue
                nid = 1
                L = ["hist e_%s_c%d_%s%d_%d" % (typ, ci, "k" if core else "f", depth, si), new]
                for s in inits:
                    L.append("init %d %s" % (nid, s)); nid += 1
                L += ups
                L.append("build")
                for x in names:
                    if "{id}" in x:
                        x = x.replace("{id}", str(nid)); nid += 1
                    L.append(x)
                    if core and x != "dropcoll":
                        L.append("obs")     # the core sequences read the observers in every state they reach
                if "dropcoll" not in names:
                    L.append("dropcoll")
                L += ["cleanup", "endhist"]
                yield L


def main():
    ap = argparse.ArgumentParser()
    ap.add_argument("--types", required=True)
    ap.add_argument("--level", type=int, default=1)
    ap.add_argument("--out", required=True)
    ap.add_argument("--stats")
    ap.add_argument("--shard", default="0/1")
    a = ap.parse_args()
    si, sn = [int(x) for x in a.shard.split("/")]
    stats = {"types": {}, "ops": 0, "count": 0, "level": a.level}
    n = 0
    with open(a.out, "w") as f:
        for typ in a.types.split(","):
            for L in histories(typ, a.level):
                n += 1
                if n % sn != si:
                    continue
                f.write("\n".join(L) + "\n")
                stats["types"][typ] = stats["types"].get(typ, 0) + 1
                stats["ops"] += len(L)
                stats["count"] += 1
    if a.stats:
        json.dump(stats, open(a.stats, "w"))
    else:
        print(json.dumps(stats))


if __name__ == "__main__":
    main()
