#!/usr/bin/env python3
"""writes MANIFEST.json from tools/props.py + tools/manifest_text.py"""
import json, os, subprocess, sys
ROOT = os.path.dirname(os.path.dirname(os.path.abspath(__file__)))
sys.path.insert(0, os.path.join(ROOT, "tools"))
from props import PROPS
from manifest_text import TEXT, NOT_CLAIMED, HOOK_COMMITS

checks = []
CLAIMED = [p for p in sorted(PROPS) if p in TEXT and os.path.exists(os.path.join(ROOT, 'coq', 'theories', 'Properties', p + '.v'))]
for pid in CLAIMED:
    t = TEXT[pid]
    checks.append({
        "property_id": pid,
        "quick_cmd": "./check %s --tier quick" % pid,
        "thorough_cmd": "./check %s --tier thorough" % pid,
        "evidence_file": "/verif/evidence/%s.json" % pid,
        "replay_cmd_template": "./check replay {path}",
        "engine": "coq-model+correspondence",
        "level_claimed": {"category": "proof", "text": t["level"], "design_ref": t["design_ref"]},
        "level_note": t["note"],
        "technique": t["technique"],
    })
m = {
    "version": 1,
    "setup_cmd": "./setup.sh",
    "hooks": {
        "guard": "--cfg futures_buffered_verif",
        "enable": "RUSTFLAGS=\"--cfg futures_buffered_verif\" cargo build --release --offline --manifest-path /verif/harness/Cargo.toml (the harness links /repo by path)",
        "baseline_off_cmd": "cd /repo && cargo nextest run --workspace --no-fail-fast --offline --test-threads 8",
        "source_commits": HOOK_COMMITS,
        "add_only": True,
    },
    "engines": [
        {"name": "coq-model+correspondence", "path": "/verif/coq, /verif/harness, /verif/ocaml, /verif/tools",
         "serves_properties": CLAIMED,
         "kind_free_text": "machine-checked proof in Coq 8.16 about a hand-written executable Gallina model of the crate; the model is tied to /repo's working tree on every run by a correspondence check (same histories on the real crate via a Rust harness and on the extracted model, traces compared per property projection) and by regenerated Calib.v / OrderingsInst.v; the properties' monitors (Gallina, extracted) are evaluated on the implementation's traces"}
    ],
    "checks": checks,
    "not_applicable": [{"property_id": k, "reason": v} for k, v in sorted(NOT_CLAIMED.items()) if k not in CLAIMED],
    "notes": "see DESIGN.md; known findings in known_findings.json; seeded changes in seeded/, behaviour-preserving changes in harmless/",
}
json.dump(m, open(os.path.join(ROOT, "MANIFEST.json"), "w"), indent=1)
print("MANIFEST.json:", len(checks), "checks,", len(m["not_applicable"]), "not claimed")
