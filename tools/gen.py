#!/usr/bin/env python3
"""History generator (format: docs/FORMAT.md).  Every random choice derives from the seed.

usage: gen.py --seed S --count N --profile P [--types FUB,FU,...] --out FILE [--stats FILE]
"""
import argparse, json, random, sys

ALL_TYPES = ["FUB", "FU", "MB", "MU", "FOB", "FO", "BU", "BO", "TBU", "TBO", "FEC", "JA", "TJA"]
COLLS = ["FUB", "FU", "MB", "MU", "FOB", "FO"]
ADAPTERS = ["BU", "BO", "TBU", "TBO", "FEC"]
JOINS = ["JA", "TJA"]
BOUNDED = {"FUB", "MB", "FOB"}
MERGES = {"MB", "MU"}
ORDERED = {"FOB", "FO"}
TRY = {"TBU", "TBO", "TJA"}

SEEDS = [0, 1, 2, (1 << 63) - 2, (1 << 63) - 1, 1 << 63, (1 << 63) + 1, (1 << 64) - 2, (1 << 64) - 1]


class Prof:
    """knobs of a generation profile"""
    def __init__(self, **kw):
        self.max_ops = 40          # ops after build
        self.max_cap = 6
        self.p_inj = 0.3           # probability that a poll carries injections
        self.p_inc = 0.15          # ... of which a forced Inconsistent
        self.p_self = 0.4          # a Pending step wakes itself
        self.p_clone = 0.2         # a step clones its waker
        self.p_hact = 0.25         # a step acts on some handle
        self.p_never = 0.15        # a child never completes
        self.max_steps = 4
        self.p_early_drop = 0.08
        self.p_env = 0.25
        self.p_obs = 0.12
        self.p_move = 0.04
        self.p_poll = 0.4
        self.handle_space = 8
        self.wakers = 3
        self.big = 0.0             # probability of a "large" history (many children / > budget)
        self.p_seed = 0.5          # ordered: seeded counters
        self.p_front = 0.3
        self.p_over = 0.15         # bounded: push although probably full
        self.p_try = 0.4
        self.small_groups = 0.8    # FU/MU/FO: first group capacity 1..3 instead of 32
        self.p_uperr = 0.15
        self.p_uppend = 0.25
        self.p_upend = 0.8
        self.tail_polls = 6        # polls appended before the final drop
        for k, v in kw.items():
            setattr(self, k, v)


PROFILES = {
    "default": Prof(),
    "quiet": Prof(p_inj=0.0, p_inc=0.0),                      # no hook-point injections
    "races": Prof(p_inj=0.8, p_inc=0.3, p_clone=0.4, p_hact=0.5, p_env=0.35),
    "big": Prof(big=0.6, max_ops=120, p_inj=0.15),
    "drops": Prof(p_early_drop=0.5, p_clone=0.4, p_hact=0.4),
    "order": Prof(p_front=0.45, p_seed=0.9, p_never=0.05, p_inj=0.05),
    "stale": Prof(p_clone=0.6, p_hact=0.6, p_env=0.45, handle_space=12, p_never=0.05),
    "limits": Prof(max_cap=3, p_over=0.5, p_try=0.6),
    "sleepy": Prof(p_self=0.05, p_never=0.5, p_env=0.1, p_inj=0.0, tail_polls=10),
}


class Gen:
    def __init__(self, rng, prof, stats):
        self.r = rng
        self.p = prof
        self.stats = stats

    # ---- scripts -------------------------------------------------------
    def hact(self):
        h = self.r.randrange(self.p.handle_space)
        return self.r.choice(["w", "w", "w", "W", "d", "k"]) + str(h)

    def acts(self, allow_self=True):
        a = []
        if allow_self and self.r.random() < self.p.p_self:
            a.append("s")
        if allow_self and self.r.random() < self.p.p_clone:
            a.append("c")
        while self.r.random() < self.p.p_hact:
            a.append(self.hact())
        self.r.shuffle(a)
        return ".".join(a)

    def fut_script(self, try_=False):
        r = self.r
        n = r.choice([0, 0, 1, 1, 1, 2, 2, 3, self.p.max_steps])
        steps = [self.acts() + ":P" for _ in range(n)]
        if r.random() >= self.p.p_never:
            fin = "X" if (try_ and r.random() < 0.3) else "R"
            steps.append((self.acts() if r.random() < 0.3 else "") + ":" + fin)
        return ";".join(steps) if steps else "-"

    def src_script(self):
        r = self.r
        n = r.choice([0, 1, 2, 3, 5, 8])
        steps = []
        for _ in range(n):
            if r.random() < 0.6:
                steps.append((self.acts() if r.random() < 0.2 else "") + ":I")
            else:
                steps.append(self.acts() + ":P")
        if r.random() >= self.p.p_never:
            steps.append(":E")
        return ";".join(steps) if steps else "-"

    def child_script(self, typ):
        if typ in MERGES:
            return self.src_script()
        return self.fut_script(try_=typ in TRY)

    # ---- polls ---------------------------------------------------------
    def poll(self):
        r = self.r
        line = "poll %d" % r.randrange(1, self.p.wakers + 1)
        if r.random() < self.p.p_inj:
            toks = []
            for _ in range(r.choice([1, 1, 2, 3])):
                kind = r.choice(["reg", "mid", "exit", "exit"])
                k = 1 if kind == "reg" and r.random() < 0.7 else r.randrange(1, 7)
                acts = ".".join(self.hact() for _ in range(r.choice([1, 1, 2])))
                toks.append("%s#%d=%s" % (kind, k, acts))
            if r.random() < self.p.p_inc:
                toks.append("inc#%d" % r.randrange(1, 5))
            self.stats["polls_with_inj"] += 1
            line += " " + " ".join(toks)
        self.stats["polls"] += 1
        return line

    # ---- whole histories -----------------------------------------------
    def lying_hint(self, new, k):
        """an iterator may lie in its size_hint: now and then the one handed to from_iter / join_all
        claims exactly K elements (fewer, more, many more than the k it yields) instead of (0, Some(k))"""
        r = self.r
        if " lazy=1" in new and r.random() < 0.4:
            K = r.choice([max(0, k - 1), k + 1, k + 7, 32, 33, 40, 64, 100, 4096])
            new = new.replace(" lazy=1", " ihint=%d" % K)
            self.stats["lying_iterators"] = self.stats.get("lying_iterators", 0) + 1
        return new

    def history(self, name, typ):
        r, p = self.r, self.p
        L = ["hist " + name]
        big = r.random() < p.big
        cap = r.choice([0, 1, 1, 2, 2, 3, 4, p.max_cap])
        if big:
            cap = r.choice([cap, 61, 64, 70, 130])
        new = "new " + typ
        nid = 1
        self.stats["types"][typ] = self.stats["types"].get(typ, 0) + 1
        inits = []
        ups = []
        if typ in COLLS:
            use_iter = typ == "MB" or r.random() < 0.12
            if typ in ("FU", "MU", "FO"):
                if r.random() < p.small_groups:
                    new += " cap=%d" % r.choice([1, 1, 2, 3])
                elif r.random() < 0.5:
                    new += " new=1"
                else:
                    new += " cap=%d" % r.choice([0, 4, 32])
            elif typ != "MB":
                new += " cap=%d" % cap
            if typ in ORDERED and r.random() < p.p_seed:
                new += " seed=%d" % (r.choice(SEEDS) if r.random() < 0.85 else r.randrange(1 << 64))
            if use_iter:
                if typ != "MB":
                    new += " iter=1"
                if r.random() < 0.5:
                    new += " lazy=1"    # the harness passes an iterator whose size_hint is (0, Some(n))
                k = r.choice([0, 1, 2, 3, 4, 6]) if not big else r.choice([40, 65, 100])
                for _ in range(k):
                    inits.append("init %d %s" % (nid, self.child_script(typ)))
                    nid += 1
                new = self.lying_hint(new, k)
        elif typ in JOINS:
            if r.random() < 0.5:
                new += " lazy=1"
            k = r.choice([0, 1, 2, 3, 4, 6]) if not big else r.choice([40, 65, 100])
            for _ in range(k):
                inits.append("init %d %s" % (nid, self.child_script(typ)))
                nid += 1
            new = self.lying_hint(new, k)
        else:
            n = r.choice([0, 1, 1, 2, 2, 3, 4]) if not big else r.choice([5, 61, 70])
            new += " n=%d" % n
            if r.random() < 0.4:
                new += " hlo=%d" % r.randrange(0, 3)
            if r.random() < 0.4:
                new += " hhi=%s" % r.choice(["none", "1", "2", "18446744073709551615", "18446744073709551614", "18446744073709551612", "9223372036854775808"])
            k = r.choice([0, 1, 2, 3, 5, 8, 12]) if not big else r.choice([30, 80, 150])
            for _ in range(k):
                x = r.random()
                if x < p.p_uppend:
                    a = []
                    if r.random() < 0.6:
                        a.append("s")
                    if r.random() < 0.3:
                        a.append("c")
                    ups.append("up pend " + (".".join(a) if a else "-"))
                elif x < p.p_uppend + p.p_uperr and typ in TRY:
                    ups.append("up err")
                else:
                    ups.append("up item " + self.fut_script(try_=typ in TRY))
            if r.random() < p.p_upend:
                ups.append("up end")
        L.append(new)
        L += inits + ups
        L.append("build")

        nops = r.randrange(3, p.max_ops)
        if big:
            nops = r.randrange(p.max_ops // 2, p.max_ops * 2)
        dropped = False
        pushes_ok = typ in COLLS
        for _ in range(nops):
            x = r.random()
            if dropped:
                if r.random() < 0.6:
                    L.append("env " + self.hact())
                else:
                    L.append(self.poll())
                continue
            if r.random() < p.p_early_drop / max(1, nops / 4):
                L.append("dropcoll")
                dropped = True
                continue
            if x < p.p_poll:
                L.append(self.poll())
            elif x < p.p_poll + p.p_env:
                L.append("env " + self.hact())
            elif x < p.p_poll + p.p_env + p.p_obs:
                L.append("obs")
            elif x < p.p_poll + p.p_env + p.p_obs + p.p_move:
                L.append("move")
            elif pushes_ok:
                burst = 1 if not big else r.choice([1, 1, 5, 30, 70])
                for _ in range(burst):
                    front = typ in ORDERED and r.random() < p.p_front
                    tr = typ in BOUNDED and r.random() < p.p_try
                    opn = ("try" if tr else "") + "push" + ("f" if front else "")
                    L.append("%s %d %s" % (opn, nid, self.child_script(typ)))
                    nid += 1
                    self.stats["pushes"] += 1
            else:
                L.append(self.poll())
        if not dropped:
            for _ in range(r.randrange(0, p.tail_polls + 1)):
                L.append(self.poll() if r.random() < 0.8 else "env " + self.hact())
            if r.random() < 0.5:
                L.append("obs")
            L.append("dropcoll")
        for _ in range(r.choice([0, 0, 1, 3])):
            L.append("env " + self.hact())
        L.append("cleanup")
        L.append("endhist")
        self.stats["ops"] += len(L)
        return L


# ---- targeted scenarios ---------------------------------------------------------------
# Random histories practically never produce the shapes below; each is a template with
# randomised parameters (all choices from the same PRNG).

def _tail(L):
    L += ["dropcoll", "cleanup", "endhist"]
    return L


def scen_budget(g, name, typ):
    """more than B (61) children queued for one poll, all answering Pending quietly: the poll must
    stop on its budget AND wake its task; the rest must be polled by the following polls; bursts of
    external wakes > B; many children finishing in one call (merges: sources ending together)"""
    r = g.r
    N = r.choice([62, 63, 70, 100, 125, 140])
    L = ["hist " + name]
    quiet = lambda k, fin: ";".join([":P"] * k + ([fin] if fin else [])) or "-"
    clone = lambda k, fin: ";".join((["c:P"] + [":P"] * (k - 1) if k else []) + ([fin] if fin else [])) or "-"
    nid = 1
    # variants: every child pending at first (the poll that fills / drains must stop on its budget
    # without an item), all ending at once (> B completions in one call), or a child that completes
    # exactly on the budget-th poll of a call
    variant = r.choice(["mixed", "allpend", "allend", "boundary", "sleepers"])
    if variant == "sleepers" and typ not in ("FUB", "FOB", "FU", "FO", "MU", "MB", "JA", "TJA"):
        variant = "allpend"
    bpos = r.choice([61, 61, 62, 60])
    def kfin(j, fins):
        """(pending steps, final) of the j-th child (1-based)"""
        if variant == "sleepers":
            # more than B children that stay Pending and are never woken: after the budget stop
            # of the first polls the collection must fall silent (C14 with held > B), however
            # often it is polled (held + 4 polls follow)
            return 1, None
        if variant == "allpend":
            return r.choice([1, 2, 3]), r.choice(fins)
        if variant == "allend":
            return 0, fins[0]
        if variant == "boundary":
            return (0, fins[0]) if j == bpos else (r.choice([2, 3]), r.choice(fins))
        return r.choice([0, 1, 2, 3]), r.choice(fins)
    if typ in ("FUB", "FOB"):
        L += ["new %s cap=%d" % (typ, N + r.choice([0, 0, 3])), "build"]
    elif typ in ("FU", "FO", "MU"):
        L += ["new %s %s" % (typ, r.choice(["cap=1", "cap=2", "new=1", "cap=64"])), "build"]
    elif typ == "MB":
        L += ["new MB"]
        for j in range(1, N + 1):
            k, fin = kfin(j, [":E", ":E", ":I;:E", None])
            L.append("init %d %s" % (nid, (clone if r.random() < 0.5 else quiet)(k, fin))); nid += 1
        L.append("build")
    elif typ in ("JA", "TJA"):
        L += ["new " + typ]
        for j in range(1, N + 1):
            k, fin = kfin(j, [":R"])
            if typ == "TJA" and r.random() < 0.02:
                fin = ":X"
            L.append("init %d %s" % (nid, (clone if r.random() < 0.5 else quiet)(k, fin))); nid += 1
        L.append("build")
    else:  # adapters
        n = r.choice([62, 65, 66, 70, 100, 130])
        # an upstream whose size_hint lower bound says nothing (slack >= what is left): the limit
        # must still be n, not what the hint suggested at construction
        L += ["new %s n=%d%s" % (typ, n, r.choice(["", "", " hlo=1000"]))]
        for j in range(1, n + r.choice([5, 40]) + 1):
            k, fin = kfin(j, [":R"])
            L.append("up item " + (clone if r.random() < 0.5 else quiet)(k, fin or ":R")); nid += 1
        L += ["up end", "build"]
    if typ in ("FUB", "FOB", "FU", "FO", "MU"):
        for j in range(1, N + 1):
            k, fin = kfin(j, [":E", ":E", ":I;:E", None] if typ == "MU" else [":R", ":R", None])
            L.append("push %d %s" % (nid, (clone if r.random() < 0.5 else quiet)(k, fin))); nid += 1
    nh = 0
    if variant == "sleepers":
        L += ["poll 1"] * (N + 4)
        g.stats["types"][typ] = g.stats["types"].get(typ, 0) + 1
        return _tail(L)
    for rnd in range(r.choice([3, 5, 8])):
        L.append("poll %d" % r.choice([1, 2, 3]))
        if r.random() < 0.5:
            L.append("poll %d" % r.choice([1, 2, 3]))
        # a burst of external wakes (handles 0.. were cloned by the first polls)
        burst = r.choice([0, 5, 62, 70, 130])
        hs = list(range(0, max(1, min(N, 70 * (rnd + 1)))))
        r.shuffle(hs)
        for h in hs[:burst]:
            L.append("env w%d" % h)
        if r.random() < 0.3:
            L.append("obs")
    for _ in range(r.choice([2, 4, 8])):
        L.append("poll %d" % r.choice([1, 2, 3]))
    g.stats["types"][typ] = g.stats["types"].get(typ, 0) + 1
    return _tail(L)


def scen_groups(g, name, typ):
    """unbounded collections with several groups: a long-lived pending child in an early group, the
    last group filled and drained over and over (allocation must not grow; the drained last group is
    kept), woken victims in early groups while ready children keep arriving in the last group
    (no starvation), drained groups in the middle (discarded), polls after the last group drained"""
    r = g.r
    if typ not in ("FU", "MU", "FO"):
        typ = r.choice(["FU", "MU", "FO"])
    L = ["hist " + name, "new %s cap=%d" % (typ, r.choice([1, 1, 2, 3])), "build"]
    nid = 1
    src = typ == "MU"
    never = "c:P;:P;:P;:P;:P;:P;:P;:P;:P;:P;:P;:P"
    ready = ":I;:E" if src else ":R"
    # victims in the early groups
    nv = r.choice([1, 2, 3])
    for _ in range(nv):
        L.append("push %d %s" % (nid, never)); nid += 1
    L.append("poll 1")
    cycles = r.choice([5, 12, 30])
    for c in range(cycles):
        k = r.choice([1, 2, 3, 6, 12])
        for _ in range(k):
            L.append("push %d %s" % (nid, ready if r.random() < 0.85 else ":P;" + ready)); nid += 1
        if r.random() < 0.5:
            L.append("env w%d" % r.randrange(nv))
        for _ in range(k + r.choice([0, 1, 2])):
            L.append("poll %d" % r.choice([1, 2]))
        if r.random() < 0.2:
            L.append("obs")
    for _ in range(4):
        L.append("poll 1")
    g.stats["types"][typ] = g.stats["types"].get(typ, 0) + 1
    return _tail(L)


def scen_reuse(g, name, typ):
    """completion, stale wakes of the finished child's waker (by ref and by value, twice), slot
    reuse by a new child, wakes of other held children in between, drop of the collection with
    handles outstanding, handles used afterwards"""
    r = g.r
    if typ not in ("FUB", "FU", "MB", "MU", "FOB", "FO"):
        typ = r.choice(["FUB", "FU", "FOB", "FO", "MU"])
    cap = r.choice([2, 3, 4, 6, 8, 12])
    L = ["hist " + name]
    src = typ in ("MB", "MU")
    fin = ":E" if src else ":R"
    nid = 1
    if typ == "MB":
        L.append("new MB")
        for _ in range(cap):
            L.append("init %d c.c:P;c:P;%s" % (nid, fin)); nid += 1
        L.append("build")
    else:
        L += ["new %s cap=%d" % (typ, cap if typ in ("FUB", "FOB") else r.choice([1, 2, 4])), "build"]
        for j in range(cap):
            body = "c.c:P;c:P;" + (fin if (j or r.random() < 0.5) else ":P;:P;:P;:P;:P;:P;:P;:P;:P;:P;:P;:P;:P;:P")
            L.append("push %d %s" % (nid, body)); nid += 1
    L.append("poll 1")          # every child clones two handles: 0 .. 2cap-1
    L.append("poll 1")
    nh = 2 * cap
    for rnd in range(r.choice([2, 4, 6])):
        for _ in range(r.choice([1, 2, 4])):
            h = r.randrange(nh + cap)
            L.append("env %s%d" % (r.choice(["w", "w", "W", "W", "k", "d"]), h))
        L.append("poll %d" % r.choice([1, 2]))
        if typ != "MB" and r.random() < 0.7:
            for _ in range(r.choice([1, 2])):
                L.append("%s %d c:P;%s" % ("trypush" if typ in ("FUB", "FOB") else "push", nid, fin)); nid += 1
        for _ in range(r.choice([0, 1, 3])):
            h = r.randrange(nh + cap)
            L.append("env %s%d" % (r.choice(["w", "W", "W", "k"]), h))
        L.append("poll %d" % r.choice([1, 2]))
    # a burst of (mostly stale) wakes, then a quiet tail: nobody wakes anything any more, the
    # collection must go to sleep within (held + 2) polls
    if r.random() < 0.6:
        hs = list(range(nh + cap)); r.shuffle(hs)
        for h in hs[:r.choice([3, 6, 12, 24])]:
            L.append("env w%d" % h)
    for _ in range(r.choice([0, 6, 10, 14])):
        L.append("poll 1")
    L.append("dropcoll")
    for _ in range(r.choice([0, 2, 5])):
        L.append("env %s%d" % (r.choice(["w", "W", "d", "k"]), r.randrange(nh + cap)))
    L += ["cleanup", "endhist"]
    g.stats["types"][typ] = g.stats["types"].get(typ, 0) + 1
    return L


def scen_deque(g, name, typ):
    """ordered queues: out-of-order completions leave holes in the slot map and park outputs, then
    push_front / push_back (wrapping counters, re-basing with holes), refused pushes on a full
    queue, from_iter followed by pushes; at the end everything completes and is drained - every
    future must come out, in deque order"""
    r = g.r
    if typ not in ("FOB", "FO"):
        typ = r.choice(["FOB", "FO"])
    cap = r.choice([3, 4, 5, 8])
    L = ["hist " + name]
    new = "new %s cap=%d" % (typ, cap if typ == "FOB" else r.choice([1, 2, 4]))
    if r.random() < 0.6:
        new += " seed=%d" % r.choice(SEEDS)
    nid = 1
    handles = []          # handle id of every child, in the order its first poll clones it
    pending = []          # children (by handle) not yet completed
    nh = 0
    use_iter = r.random() < 0.3
    if use_iter:
        new += " iter=1"
        L.append(new)
        k = r.choice([2, 3, cap])
        for _ in range(k):
            L.append("init %d c:P;:R" % nid); nid += 1
        L.append("build")
        npush = k
    else:
        L += [new, "build"]
        npush = 0
    def push(front):
        nonlocal nid, npush
        op = ("try" if (typ == "FOB" and r.random() < 0.5) else "") + "push" + ("f" if front else "")
        L.append("%s %d c:P;:R" % (op, nid)); nid += 1; npush += 1
    for _ in range(r.choice([2, 3, cap, cap + 1])):
        push(r.random() < 0.3)
    L.append("poll 1")
    nh = npush                      # an upper bound: refused pushes clone nothing
    for rnd in range(r.choice([2, 3, 5])):
        hs = list(range(nh)); r.shuffle(hs)
        for h in hs[:r.choice([1, 2, 3])]:
            L.append("env w%d" % h)
        L.append("poll %d" % r.choice([1, 2]))
        for _ in range(r.choice([0, 1, 2])):
            push(r.random() < 0.5)
        L.append("poll %d" % r.choice([1, 2]))
        nh = npush
        if r.random() < 0.3:
            L.append("obs")
    # everything completes
    for _ in range(2):
        for h in range(nh + 2):
            L.append("env w%d" % h)
        for _ in range(npush + 2):
            L.append("poll 1")
    L.append("obs")
    g.stats["types"][typ] = g.stats["types"].get(typ, 0) + 1
    return _tail(L)


def scen_zst(g, name, typ):
    """join_all over futures whose output is zero-sized (the harness can only observe how many
    outputs come back); every future completes before the join is dropped, so no output is ever
    dropped inside the crate"""
    r = g.r
    k = r.choice([0, 1, 2, 3, 5, 9])
    L = ["hist " + name, "new JA zst=1" + (" lazy=1" if r.random() < 0.3 else "")]
    late = 0
    for i in range(k):
        if r.random() < 0.5:
            L.append("init %d :R" % (i + 1))
        else:
            L.append("init %d c:P;:R" % (i + 1)); late += 1
    L.append("build")
    L.append("poll 1")
    hs = list(range(late)); r.shuffle(hs)
    for h in hs:
        L.append("env w%d" % h)
        if r.random() < 0.5:
            L.append("poll %d" % r.choice([1, 2]))
    L += ["poll 1", "poll 1"]
    g.stats["types"]["JA"] = g.stats["types"].get("JA", 0) + 1
    return _tail(L)


def scen_cycles(g, name, typ):
    """unbounded collections filled past their capacity and drained completely (the poll observes
    None), over and over: the allocation count must not grow with the number of rounds, the
    largest group is kept across a complete drain and the next group is sized from it"""
    r = g.r
    if typ not in ("FU", "MU", "FO"):
        typ = r.choice(["FU", "MU", "FO"])
    new = "new %s" % typ
    c = r.random()
    if c < 0.4:
        new += " cap=%d" % r.choice([1, 2, 3])
    elif c < 0.7:
        new += " new=1"
    else:
        new += " cap=32"
    L = ["hist " + name, new, "build"]
    nid = 1
    src = typ == "MU"
    ready = ":I;:E" if src else ":R"
    rounds = r.choice([12, 20, 30])
    kmax = r.choice([7, 13, 34, 66])
    for rd in range(rounds):
        k = kmax if rd % 2 == 0 else r.choice([1, 2, kmax])
        late = typ == "FO" and r.random() < 0.5
        for i in range(k):
            if late and i == 0:
                L.append("push %d s:P;s:P;:R" % nid)     # the front wakes itself and completes last: everything else is parked
            else:
                L.append("push%s %d %s" % ("f" if typ == "FO" and r.random() < 0.1 and not late else "", nid, ready))
            nid += 1
        for _ in range((2 if src else 1) * k + 4):
            L.append("poll 1")
        if r.random() < 0.2:
            L.append("obs")
    g.stats["types"][typ] = g.stats["types"].get(typ, 0) + 1
    return _tail(L)


def scen_huge(g, name, typ):
    """an unbounded collection holding thousands of children at once (now and then: most instances
    hold a few hundred): every new group must be twice the last one however large that is - the
    capacity reported after each batch and the allocation counts say so"""
    r = g.r
    if typ not in ("FU", "MU", "FO"):
        typ = r.choice(["FU", "MU", "FO"])
    total = r.choice([2100, 3100, 4200]) if r.random() < 0.06 else r.choice([130, 260, 520])
    L = ["hist " + name, "new %s %s" % (typ, r.choice(["new=1", "cap=1", "cap=32"])), "build"]
    nid = 1
    fin = ":E" if typ == "MU" else ":R"
    # (the name keeps the type it was asked for; the history says which one it is)
    done = 0
    while done < total:
        batch = min(total - done, r.choice([64, 200, 500, 1100]))
        for _ in range(batch):
            L.append("push %d %s" % (nid, r.choice([":P", ":P;" + fin, "c:P"]))); nid += 1
        done += batch
        L.append("obs")
        if r.random() < 0.5:
            L.append("poll %d" % r.choice([1, 2]))
    for _ in range(r.choice([1, 2, 3])):
        L.append("poll %d" % r.choice([1, 2]))
    L.append("obs")
    g.stats["types"][typ] = g.stats["types"].get(typ, 0) + 1
    return _tail(L)


SCENARIOS = {"huge": scen_huge, "budget": scen_budget, "groups": scen_groups, "reuse": scen_reuse, "deque": scen_deque, "zst": scen_zst,
             "cycles": scen_cycles}


def with_extend(lines, typ, r, stats):
    """`Extend::extend` (FuturesOrdered / FuturesOrderedBounded): in half of their histories runs of
    plain `push` lines are marked `#!extend N` - a directive for the harness only, which then
    executes them as the elements of one `extend` call; for every other reader of the history
    (the model included) it is a comment and the pushes are N separate operations."""
    if typ not in ("FO", "FOB") or r.random() < 0.5:
        return lines
    out, i = [], 0
    while i < len(lines):
        if lines[i].startswith("push "):
            j = i
            while j < len(lines) and lines[j].startswith("push "):
                j += 1
            n = j - i
            if r.random() < 0.75:
                k = n if r.random() < 0.7 else r.randrange(1, n + 1)
                # now and then the iterator panics once its elements are used up (the panic is caught):
                # whatever `extend` has done by then must stand
                out.append("#!extend%s %d" % ("p" if r.random() < 0.3 else "", k))
                stats["extend_calls"] = stats.get("extend_calls", 0) + 1
                stats["extend_elems"] = stats.get("extend_elems", 0) + k
            out += lines[i:j]
            i = j
        else:
            out.append(lines[i]); i += 1
    return out


def main():
    ap = argparse.ArgumentParser()
    ap.add_argument("--seed", type=int, default=0)
    ap.add_argument("--count", type=int, default=100)
    ap.add_argument("--profile", default="default")
    ap.add_argument("--types", default=",".join(ALL_TYPES))
    ap.add_argument("--out", required=True)
    ap.add_argument("--stats")
    ap.add_argument("--prefix", default="g")
    a = ap.parse_args()
    rng = random.Random("%s/%s/%d" % (a.profile, a.types, a.seed))
    stats = {"types": {}, "polls": 0, "polls_with_inj": 0, "pushes": 0, "ops": 0}
    profs = a.profile.split(",")
    types = a.types.split(",")
    with open(a.out, "w") as f:
        for i in range(a.count):
            pn = profs[i % len(profs)]
            typ = types[rng.randrange(len(types))]
            if pn in SCENARIOS:
                g = Gen(rng, PROFILES["default"], stats)
                lines = SCENARIOS[pn](g, "%s%d_%s_%s" % (a.prefix, i, pn, typ), typ)
                stats["ops"] += len(lines)
            else:
                g = Gen(rng, PROFILES[pn], stats)
                lines = g.history("%s%d_%s_%s" % (a.prefix, i, pn, typ), typ)
            lines = with_extend(lines, typ, random.Random("ext/%s/%d/%d" % (a.profile, a.seed, i)), stats)
            f.write("\n".join(lines) + "\n")
    stats["count"] = a.count
    stats["seed"] = a.seed
    stats["profile"] = a.profile
    if a.stats:
        json.dump(stats, open(a.stats, "w"))


if __name__ == "__main__":
    main()
