#!/usr/bin/env python3
"""writes seeded/<id>/meta.json from the sub-agent's notes, my confirmation run and the detection
run, and prints the markdown table for DESIGN.md section 9"""
import json, os, re, sys
S = "/verif/seeded"
rows = []
for sid in sorted(os.listdir(S)):
    d = os.path.join(S, sid)
    if not os.path.isdir(d):
        continue
    prop = sid.split("_")[0]
    notes = open(os.path.join(d, "agent_notes.md")).read() if os.path.exists(os.path.join(d, "agent_notes.md")) else ""
    title = next((l.strip("# ").strip() for l in notes.splitlines() if l.startswith("#")), sid)
    files = re.findall(r"^\+\+\+ b/(\S+)", open(os.path.join(d, "patch.diff")).read(), re.M)
    conf = open(os.path.join(d, "confirm.txt")).read() if os.path.exists(os.path.join(d, "confirm.txt")) else ""
    det = json.load(open(os.path.join(d, "detect.json"))) if os.path.exists(os.path.join(d, "detect.json")) else {}
    concrete = sorted(p for p, v in det.items() if any("VIOLATION" in l and "no-failing-input-found" not in l for l in v["lines"]))
    corr = sorted(p for p, v in det.items() if v["exit"] and p not in concrete
                  and not all("KNOWN" in l for l in v["lines"]))
    needs = ""
    m = re.search(r"(?is)(needs?[^\n]*manifest[^\n]*\n+|## *(what it needs|trigger)[^\n]*\n+)(.+?)(\n#|\n\n\n|\Z)", notes)
    if m:
        needs = " ".join(m.group(3).split())[:600]
    meta = {"id": sid, "breaks_property": prop, "title": title, "files": files,
            "needs_to_manifest": needs or "see agent_notes.md",
            "confirmed_by": "tools/seedconfirm.sh (scratch worktree of /repo HEAD with the fix: commits): " + " | ".join(conf.strip().splitlines()),
            "checks_run": "tools/seedrun.py: every ./check Cxx --tier quick against the patched tree (isolated copy)",
            "detected_concrete_violation_in": concrete, "other_checks_failing_without_replay": corr}
    json.dump(meta, open(os.path.join(d, "meta.json"), "w"), indent=1)
    verdict = "own" if prop in concrete else ("other" if concrete else ("corr" if corr else "missed"))
    rows.append((sid, ", ".join(files).replace("src/", ""), title[:90], verdict, " ".join(concrete) or "-"))
print("| id | file | change | verdict | concrete VIOLATION in |")
print("|---|---|---|---|---|")
for r in rows:
    print("| %s | %s | %s | %s | %s |" % r)
