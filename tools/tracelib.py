"""Reading, normalising and projecting traces (format: docs/FORMAT.md)."""
import re


def read_traces(path):
    """-> dict name -> list of (op_header, [event lines])   (insertion ordered)"""
    out = {}
    cur = None
    ops = None
    with open(path) as f:
        for line in f:
            line = line.rstrip("\n")
            if line.startswith("hist "):
                cur = line[5:]
                ops = []
                out[cur] = ops
            elif line == "endhist":
                cur = None
            elif line.startswith("op "):
                ops.append((line, []))
            elif cur is not None and ops:
                ops[-1][1].append(line)
    return out


def normalise(ops):
    """addresses: a `cpoll cid b s addr` line already names the slot (waker block b — block ids are
    allocation order, the harness keeps released blocks so they are never re-used — and slot s);
    its address becomes the index of that address among the addresses seen for (b, s): `a0` unless
    the slot array moved.  A `cdrop cid addr` address becomes `same` (the address of the child's
    last poll), `moved`, or `unpolled` (never polled: nothing to compare with).  Raw addresses are
    not compared across slots: the allocator may hand the memory of a discarded group to a new one.
    Runs of crate-side output drops are sorted."""
    per_slot = {}
    last = {}

    res = []
    for hdr, evs in ops:
        new = []
        for e in evs:
            t = e.split(" ")
            if t[0] == "cpoll" and len(t) >= 5:
                if t[4] != "ext":
                    l = per_slot.setdefault((t[2], t[3]), [])
                    if t[4] not in l:
                        l.append(t[4])
                    last[t[1]] = t[4]
                    t[4] = "a%d" % l.index(t[4])
                e = " ".join(t)
            elif t[0] == "cdrop" and len(t) >= 3:
                if t[2] != "ext":
                    if t[1] not in last:
                        t[2] = "unpolled"
                    else:
                        t[2] = "same" if last[t[1]] == t[2] else "moved"
                e = " ".join(t)
            new.append(e)
        # sort maximal runs of "odrop X in"
        i = 0
        while i < len(new):
            if new[i].startswith("odrop ") and new[i].endswith(" in"):
                j = i
                while j < len(new) and new[j].startswith("odrop ") and new[j].endswith(" in"):
                    j += 1
                new[i:j] = sorted(new[i:j])
                i = j
            else:
                i += 1
        res.append((hdr, new))
    return res


# ---- projections -------------------------------------------------------------------
# each returns the projected event (a string) or None

def _kind(e):
    return e.split(" ", 1)[0]


def proj_full(e):
    return None if _kind(e) == "alloc" else e


def proj_sched(e):
    """which child is polled when, answers, returns"""
    k = _kind(e)
    if k == "cpoll":
        return " ".join(e.split(" ")[:4])
    if k in ("cans", "ret", "refused"):
        return e
    return None


def proj_wakes(e):
    k = _kind(e)
    if k == "twake" or k == "ret":
        return e
    if k == "cpoll":
        return " ".join(e.split(" ")[:4])
    return None


def proj_rets(e):
    return e if _kind(e) in ("ret", "refused") else None


def proj_obs(e):
    return e if _kind(e) in ("ret", "refused", "obs") else None


def proj_mem(e):
    if e.startswith("leak blk"):
        return e
    return e if _kind(e) in ("blk", "vtbad", "twbal") else None


def proj_drops(e):
    if e.startswith("leak blk"):
        return None
    return e if _kind(e) in ("cdrop", "odrop", "leak", "updrop", "ret") else None


def proj_life(e):
    k = _kind(e)
    if k == "cpoll":
        return " ".join(e.split(" ")[:2])
    return e if k in ("cans", "cdrop", "ret") else None


def proj_addr(e):
    k = _kind(e)
    if k == "cpoll":
        t = e.split(" ")
        return "cpoll %s %s" % (t[1], t[4] if len(t) > 4 else "?")
    return e if k in ("cdrop", "vtbad") else None


def proj_up(e):
    k = _kind(e)
    if k == "cpoll":
        return " ".join(e.split(" ")[:2])
    return e if k in ("uppoll", "updrop", "ret", "cans") else None


def proj_polls(e):
    k = _kind(e)
    if k == "cpoll":
        return " ".join(e.split(" ")[:2])
    return e if k in ("cans",) else None


def proj_hint(e):
    if _kind(e) == "obs":
        m = re.search(r"hint=(\S+)", e)
        return "hint " + (m.group(1) if m else "?")
    return e if _kind(e) == "ret" else None


def proj_alloc(e):
    return e if _kind(e) == "alloc" else None


PROJ = {
    "full": proj_full,
    "C01": proj_wakes, "C02": proj_obs, "C03": proj_mem, "C04": proj_rets, "C05": proj_life,
    "C06": proj_drops, "C07": proj_rets, "C08": proj_addr, "C09": proj_up, "C10": proj_up,
    "C11": proj_life, "C12": proj_polls, "C13": proj_sched, "C14": proj_wakes, "C15": proj_obs,
    "C16": proj_up, "C17": proj_hint, "C18": proj_alloc,
}


def project(ops, prop):
    f = PROJ[prop]
    out = []
    for hdr, evs in ops:
        pe = [p for p in (f(e) for e in evs) if p is not None]
        if hdr.endswith(" endhist") and not pe:
            continue        # the pseudo-op only exists to carry diagnostics
        out.append(hdr)
        out += ["  " + p for p in pe]
    return out


def first_diff(a, b):
    n = min(len(a), len(b))
    for i in range(n):
        if a[i] != b[i]:
            return i
    return None if len(a) == len(b) else n


def alloc_excess(impl_ops, model_ops):
    """C18 one-sided comparison: per op (skipping op 0 = construction) impl count must not
    exceed the model's count.  returns list of (op header, impl, model)"""
    bad = []
    mm = {}
    for hdr, evs in model_ops:
        mm[hdr] = sum(int(e.split(" ")[1]) for e in evs if e.startswith("alloc "))
    for idx, (hdr, evs) in enumerate(impl_ops):
        if hdr.startswith("op 0 "):
            continue
        n = sum(int(e.split(" ")[1]) for e in evs if e.startswith("alloc "))
        if n > mm.get(hdr, 0):
            bad.append((hdr, n, mm.get(hdr, 0)))
    return bad
