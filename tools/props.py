"""Per-property configuration of ./check."""

ALL = "FUB,FU,MB,MU,FOB,FO,BU,BO,TBU,TBO,FEC,JA,TJA"
COLL = "FUB,FU,MB,MU,FOB,FO"

TRUSTED_BASE = [
    "Coq 8.16.1 kernel (coqc, full .vo build; vm_compute only in generated Calib/OrderingsInst lemmas and Examples; no native_compute)",
    "axioms: none (every property theorem prints 'Closed under the global context'; audited on every run)",
    "hand-written Gallina model coq/theories/{World,SlotMap,Fub,Unbounded,Ordered,Adapters,Step}.v of the crate: all theorems are about it",
    "correspondence check: Rust harness /verif/harness (rebuilt against /repo's working tree), extraction (ExtrOcamlBasic only, no Extract Constant; nat/N/Z stay inductive), ocaml/driver.ml + hist.ml, tools/gen.py, tools/cmp.py, tools/tracelib.py - sampled, not exhaustive",
    "calibration: budget / minimum group capacity / growth factor measured by probe histories on the real crate (tools/build.py) -> coq/generated/Calib.v; theorems hold for every params_ok record",
    "dependencies modelled, not verified: diatomic-waker (register / one-shot notify), cordyceps MpscQueue (FIFO; Empty/Inconsistent only while a producer is in flight), spin::SpinMutex, alloc (Box contents do not move, drop glue, Vec/BinaryHeap growth policy)",
    "hooks under cfg(futures_buffered_verif) in /repo/src (probes, forced Inconsistent, counter seeding, MergeUnbounded::verif_with_capacity)",
]

PROPS = {
    "C03": {
        "theorems": ["C03_release_acquire", "C03_side_condition_needed"],
        "generated_lemmas": ["OrderingsInst.orderings_ok"],
        "projection": "C03", "monitor": None,
        "profiles": "drops,stale,races,default", "types": ALL, "count": (1500, 30000), "min_events": 2,
        "trusted_extra": ["tools/build.py extract_orderings: regular expressions over inc_strong / dec_strong in src/waker_list.rs",
                          "Orderings.v: my rendering of the C11 release-sequence / fence rules"],
        "assumptions": ["sequential consistency for everything except the reference count; data-race freedom of the three dependencies is trusted"],
    },
}
