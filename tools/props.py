"""Per-property configuration of ./check."""

ALL = "FUB,FU,MB,MU,FOB,FO,BU,BO,TBU,TBO,FEC,JA,TJA"
COLL = "FUB,FU,MB,MU,FOB,FO"

TRUSTED_BASE = [
    "Coq 8.16.1 kernel (coqc, full .vo build; vm_compute only in generated Calib/OrderingsInst lemmas and Examples; no native_compute)",
    "axioms: none (every property theorem prints 'Closed under the global context'; audited on every run)",
    "hand-written Gallina model coq/theories/{World,SlotMap,Fub,Unbounded,Ordered,Adapters,Step}.v of the crate: all theorems are about it",
    "correspondence check: Rust harness /verif/harness (rebuilt against /repo's working tree), extraction (ExtrOcamlBasic only, no Extract Constant; nat/N/Z stay inductive), ocaml/driver.ml + hist.ml, tools/gen.py (sampled), tools/smallscope.py (every op sequence over a small alphabet up to a small depth), tools/cmp.py, tools/tracelib.py - sampled / bounded, not exhaustive",
    "escalation rule: when only a generated lemma about sequential code (GroupLoopInst.grouploop_ok, PollSkelInst.poll_skeleton_ok) fails for the current text, 6000 more scenario histories and the level-2 enumeration decide (agreement everywhere -> accepted, noted in the evidence); a failing lemma about concurrent steps (ProtocolInst, RefcountInst, OrderingsInst) is always reported, fbharness --stress (real threads) is only the search for a replay",
    "calibration: budget / minimum group capacity / growth factor measured by probe histories on the real crate (tools/build.py) -> coq/generated/Calib.v; theorems hold for every params_ok record",
    "dependencies modelled, not verified: diatomic-waker (register / one-shot notify), cordyceps MpscQueue (FIFO; Empty/Inconsistent only while a producer is in flight), spin::SpinMutex, alloc (Box contents do not move, drop glue, Vec/BinaryHeap growth policy)",
    "hooks under cfg(futures_buffered_verif) in /repo/src (probes, forced Inconsistent, counter seeding, MergeUnbounded::verif_with_capacity)",
]

ADAPT = "BU,BO,TBU,TBO,FEC"
ORD = "FOB,FO,BO,TBO,JA,TJA"

def P(theorems, projection, monitor, profiles, types, count, **kw):
    d = {"theorems": theorems, "projection": projection, "monitor": monitor, "profiles": profiles,
         "types": types, "count": count}
    d.update(kw)
    return d

# generated lemmas whose content is sequential code (plus the hook-point windows the harness can
# inject wakes into): when the text no longer matches, the check escalates the correspondence
# (small-scope enumeration at level 2 and more generated histories over these types) and accepts
# the changed text if the implementation still agrees with the model on all of them
ESCALATABLE = {"GroupLoopInst.grouploop_ok": "FU,MU,FO", "PollSkelInst.poll_skeleton_ok": ALL}

PROPS = {
    "C01": P([], "C01", "C01", "races,default,big,stale,budget,groups,reuse", ALL, (1500, 40000),
             generated_lemmas=["ProtocolInst.protocol_ok", "PollSkelInst.poll_skeleton_ok"],
             trusted_extra=["tools/build.py extract_protocol: regular expressions over wake_by_ref / push / pop (src/waker_list.rs) and poll_inner_no_remove (src/futures_unordered_bounded.rs) listing their shared-memory steps in textual order; ConcWake.v's transition system is my rendering of those steps (syntactic tie only)"],
             assumptions=["Level B (ConcWake.v): sequential consistency; DiatomicWaker::register / notify and each half of MpscQueue::enqueue are single atomic steps; try_dequeue returns Empty only if the queue is empty or its first node is not linked yet"]),
    "C02": P([], "C02", "C02", "default,stale,limits,races,budget,groups,reuse,deque,cycles", "FUB,FU,FOB,FO", (2000, 50000)),
    "C03": P(["C03_release_acquire", "C03_side_condition_needed"], "C03", "C03", "drops,stale,races,default,budget,groups,reuse", ALL, (1500, 30000),
             generated_lemmas=["OrderingsInst.orderings_ok", "Calib.layout_ok", "RefcountInst.refcount_protocol_ok"], min_events=2,
             trusted_extra=["tools/build.py extract_orderings: regular expressions over inc_strong / dec_strong in src/waker_list.rs",
                            "Orderings.v: my rendering of the C11 release-sequence / fence rules",
                            "tools/build.py extract_protocol: regular expressions over Drop for WakerList / drop_waker / clone_waker / wake listing the owner's steps (ConcRefcount.v assumes: one decrement, the last owner releases, no other store into the shared header)",
                            "harness allocator: a released waker block is kept and poisoned; a changed byte is reported as an access to a released block (writes only, not reads)"],
             assumptions=["sequential consistency for everything except the reference count; data-race freedom of the three dependencies is trusted"]),
    "C04": P([], "C04", "C04", "order,deque,default,races,deque,reuse", ORD, (2000, 50000)),
    "C05": P([], "C05", "C05", "stale,default,races,budget,groups,reuse", ALL, (1500, 40000), bombs="again",
             generated_lemmas=["JoinOrderInst.join_order_ok"],
             trusted_extra=["tools/build.py extract_joinorder (see C06): PinSlotMap::remove destroys the future with Pin::set",
                            "harness/src/bombs.rs: scenarios with children whose destructor panics have their own oracle (the child records its own completion and destruction) - a panic unwinding out of the crate is outside the Gallina model"]),
    "C06": P([], "C06", "C06", "drops,default,stale,budget,groups,reuse", ALL, (2000, 50000), bombs="drop",
             generated_lemmas=["JoinOrderInst.join_order_ok"],
             trusted_extra=["tools/build.py extract_joinorder: regular expressions over the arm of JoinAll::poll / TryJoinAll::poll that handles a completed input and over PinSlotMap::remove, listing 'store the output', 'destroy the future', 'bookkeeping' in textual order; JoinPanic.v is a model of its own (panics are outside the executable model)",
                            "harness/src/bombs.rs: scenarios with inputs whose destructor panics have their own oracle (self-validating output tokens; memory allocated by the crate is pre-filled) - a panic unwinding out of the crate is outside the Gallina model"]),
    "C07": P([], "C07", "C07", "default,drops,races,limits,budget,groups,reuse,zst", "JA,TJA", (2000, 40000), bombs="vec",
             trusted_extra=["harness/src/bombs.rs: scenarios with inputs whose destructor panics have their own oracle (self-validating output tokens; memory allocated by the crate is pre-filled) - a panic unwinding out of the crate is outside the Gallina model"]),
    "C08": P([], "C08", "C08", "default,big,drops,budget,groups,reuse", ALL, (1500, 30000),
             generated_lemmas=["PinsInst.pins_ok"],
             trusted_extra=["harness --layout: Unpin facts of the crate's types by autoref specialisation (the adapters over a !Unpin upstream are !Unpin, the collections are Unpin)"]),
    "C09": P([], "C09", "C09", "default,limits,races,sleepy,budget,groups,reuse", ADAPT, (2000, 50000)),
    "C10": P([], "C10", "C10", "default,limits,sleepy,races,budget,groups,reuse", ADAPT, (2000, 50000)),
    "C11": P([], "C11", "C11", "default,races,limits,big,budget,groups,reuse", "MB,MU", (2000, 50000),
             generated_lemmas=["GroupLoopInst.grouploop_ok"],
             trusted_extra=["tools/build.py extract_grouploop: regular expressions over poll_next of FuturesUnordered / MergeUnbounded listing the statements of the group loop in textual order (every write to the cursor and to the counter and every way out of the loop is classified); fu_loop / fu_poll_next of Unbounded.v are my rendering of that skeleton (syntactic tie only)"]),
    "C12": P([], "C12", "C12", "stale,races,default,big,budget,groups,reuse", ALL, (1500, 40000)),
    "C13": P([], "C13", "C13", "big,default,stale,races,budget,groups,reuse", ALL, (1200, 30000),
             generated_lemmas=["GroupLoopInst.grouploop_ok"],
             trusted_extra=["tools/build.py extract_grouploop: regular expressions over poll_next of FuturesUnordered / MergeUnbounded listing the statements of the group loop in textual order (every write to the cursor and to the counter and every way out of the loop is classified); fu_loop / fu_poll_next of Unbounded.v are my rendering of that skeleton (syntactic tie only)"]),
    "C14": P([], "C14", "C14", "sleepy,default,stale,budget,groups,reuse", ALL, (1500, 40000), known_monitor="K14"),
    "C15": P([], "C15", "C15", "limits,default,order,budget,groups,reuse,deque,cycles,huge", COLL, (2000, 20000)),
    "C16": P([], "C16", "C16", "default,limits,sleepy,budget,groups,reuse", "BO,TBO", (2000, 40000)),
    "C17": P([], "C17", "C17", "default,limits,sleepy,drops,budget,groups,reuse", "FUB,FU,MB,MU,FOB,FO,BU,BO,TBU,TBO", (2000, 50000)),
    "C18": P([], "C18", "C18", "big,default,stale,budget,groups,reuse,cycles,huge", ALL, (1200, 20000), min_events=1),
}
