#!/bin/sh
# usage: coqgoal.sh theories/File.v LINE   -- shows the proof state after line LINE
cd /verif/coq
f=$1; n=$2
tmp=/verif/work/goal_$$.v
head -n $n $f > $tmp
printf '\nShow.\n' >> $tmp
timeout 300 coqc -noglob -Q theories FB -Q generated FBGen $tmp 2>&1 | grep -v "pending proofs" | head -${3:-80}
rm -f $tmp /verif/work/goal_$$.vo* /verif/work/.goal_$$.aux /verif/work/goal_$$.glob
