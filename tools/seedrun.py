#!/usr/bin/env python3
"""Development helper (not a registered check): run every quick check against a seeded change
in an isolated copy of /verif and a scratch worktree of /repo, so that neither /repo nor the
live /verif build is disturbed.  usage: seedrun.py <seeded-id> [<seeded-id> ...]
Writes /verif/seeded/<id>/detect.json (per property: exit code, VIOLATION lines, correspondence
disagreements, monitor failures)."""
import json, os, subprocess, sys, shutil
V = os.environ.get("VERIF_VCOPY", "/tmp/vcopy"); R = os.environ.get("VERIF_MREPO", "/tmp/mrepo")
PROPS = ["C%02d" % i for i in range(1, 19)]

def sh(c, **kw):
    return subprocess.run(c, shell=True, stdout=subprocess.PIPE, stderr=subprocess.STDOUT, text=True, **kw)

def prepare():
    sh("rm -rf %s; mkdir -p %s; rsync -a --exclude .git --exclude work --exclude 'harness/target' /verif/ %s/" % (V, V, V))
    sh("mkdir -p %s/work" % V)
    if not os.path.exists(R):
        print(sh("git -C /repo worktree add -q --detach %s HEAD" % R).stdout)
    sh("git -C %s checkout -q --detach $(git -C /repo rev-parse HEAD); git -C %s checkout -- ." % (R, R))
    sh("sed -i 's|path = \"/repo\"|path = \"%s\"|' %s/harness/Cargo.toml" % (R, V))

def run(sid):
    d = "/verif/seeded/%s" % sid
    sh("git -C %s checkout -- . ; git -C %s clean -fdq" % (R, R))
    r = sh("git -C %s apply %s/patch.diff" % (R, d))
    if r.returncode:
        print(sid, "patch failed", r.stdout); return
    env = dict(os.environ, VERIF_REPO=R)
    procs = {p: subprocess.Popen("cd %s && ./check %s --tier quick" % (V, p), shell=True, env=env,
                                 stdout=subprocess.PIPE, stderr=subprocess.STDOUT, text=True) for p in PROPS}
    res = {}
    for p, pr in procs.items():
        out = pr.communicate()[0]
        ev = {}
        try:
            ev = json.load(open("%s/evidence/%s.json" % (V, p)))["coverage"]
        except Exception:
            pass
        res[p] = {"exit": pr.returncode, "lines": [l for l in out.splitlines() if "VIOLATION" in l or "KNOWN" in l][:4],
                  "corr": ev.get("correspondence_disagreements"), "monbad": ev.get("monitor_failures_on_impl")}
    json.dump(res, open(d + "/" + os.environ.get("SEEDRUN_OUT", "detect.json"), "w"), indent=1)
    hit = [p for p in PROPS if res[p]["monbad"] or res[p]["corr"]]
    real = [p for p in PROPS if any("VIOLATION" in l and "no-failing-input-found" not in l for l in res[p]["lines"])]
    print(sid, "monitor/corr hits:", hit, "| concrete VIOLATION:", real, flush=True)
    sh("git -C %s checkout -- ." % R)

if __name__ == "__main__":
    prepare()
    for s in sys.argv[1:]:
        run(s)
