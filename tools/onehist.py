#!/usr/bin/env python3
"""extract one history by name: onehist.py FILE NAME > out.hist"""
import sys
name = sys.argv[2]
on = False
for line in open(sys.argv[1]):
    if line.startswith("hist "):
        on = line.strip() == "hist " + name
    if on:
        sys.stdout.write(line)
