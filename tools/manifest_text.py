"""texts of MANIFEST.json (per property)"""
HOOK_COMMITS = ["e006dbb"]

WIP = "not claimed yet in this revision: model, harness and correspondence cover it, the property theorems are still being written (see DESIGN.md section 10)"
NOT_CLAIMED = {("C%02d" % i): WIP for i in range(1, 19)}

TEXT = {
    "C03": {
        "level": "Coq theorems: release/acquire side condition => every owner's accesses happen-before the deallocation (for any number of owners, with a refutation when the condition fails), instantiated on every run with the orderings found in src/waker_list.rs; the reference-count protocol of the model is exercised against the real crate (block alloc/free/vtable probes, allocator quarantine) on sampled histories. Partial: real data races under the C11 memory model inside the dependencies and pointer provenance are outside the model.",
        "design_ref": "DESIGN.md 6 (C03), 8",
        "note": "trusted: Coq kernel; Orderings.v as rendering of the C11 rules; regex extraction of the orderings; harness + probes; sequential consistency elsewhere",
        "technique": "Coq proof (happens-before argument, refcount invariant) + model/implementation correspondence",
    },
}
