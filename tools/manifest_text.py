"""texts of MANIFEST.json (per property).  A property is claimed when it has an entry in TEXT
and Properties/<id>.v exists; everything else is listed under not_applicable with its reason."""
HOOK_COMMITS = ["e006dbb"]

WIP = ("not claimed in this revision: the model, the harness, the correspondence and the monitor cover it, "
       "but no property theorem about it has been proved yet, so the proof technique does not decide it (see DESIGN.md section 6)")
NOT_CLAIMED = {("C%02d" % i): WIP for i in range(1, 19)}

TECH = "machine-checked proof in Coq 8.16 (invariants by induction over operations of an executable Gallina model) + model/implementation correspondence (extracted model vs. real crate on generated histories) + extracted monitor evaluated on the implementation's traces"
TRUST = ("trusted: Coq kernel (coqc; coqchk in the thorough tier); the hand-written Gallina model as a rendering of the Rust code, tied by the sampled correspondence only; "
         "extraction (ExtrOcamlBasic) + OCaml driver; Rust harness and hooks; calibrated parameters (Calib.v); dependencies (diatomic-waker, cordyceps, spin, alloc) modelled sequentially, not verified")

def T(level, ref, note=""):
    return {"level": level, "design_ref": ref, "note": (note + " " if note else "") + TRUST, "technique": TECH}

TEXT = {
    "C01": T("Theorems (all histories, scripts, capacities, injection points; atomic wakes at every race window of a poll): a poll of a group that returns Pending has registered the caller's waker as the most recent one and ends with an empty ready queue or with that waker invoked during the call; every waker action preserves this; a wake of an unqueued slot queues it and notifies the most recently registered task waker; flag <-> queued and registered = latest hold in every reachable state; the group loop of the unbounded collections returns Pending only while something is held. Partial: sequential consistency and atomic wake calls (no sub-call interleavings, no weak memory); the per-group statement is not yet lifted to 'every non-empty group was polled' for the unbounded collections.",
             "DESIGN.md 6 (C01)", "partial: Level A only."),
    "C02": T("Theorems: for FUB / FU / FOB / FO a poll that yields removes exactly one held future (its slot is vacant afterwards), None is returned iff nothing is held (and then nothing changes), Pending only while something is held with the held count unchanged; pushes add exactly one; the group loop never discards a group holding a future; the structural invariant holds in every reachable state and no unreachable arm / fuel exhaustion is ever hit. Count level; identity-level 'exactly once' relies on the slot-map theorems (a yielded future's slot is vacated in the same call).",
             "DESIGN.md 6 (C02)"),
    "C03": T("Theorems: in every reachable state the count of every waker block = the collection's references + live cloned wakers pointing to it, released iff 0; a live handle never points to a released block; no operation of any history touches a released block (EVtBad never emitted); no leak once collection and handles are gone; release/acquire side condition => every owner's accesses happen-before the deallocation, instantiated on every run with the orderings found in src/waker_list.rs. Partial: data races under the real C11 memory model inside the dependencies, pointer provenance and layout arithmetic are outside these theorems (layout is compared by probe only).",
             "DESIGN.md 6 (C03), 8", "partial: sequentially consistent interleaving of atomic waker actions; Orderings.v is my rendering of the C11 rules."),
    "C09": T("Theorems: in every reachable state of every adapter history running <= pulled-but-unyielded <= n; the fill loop pulls only while there is room, never pushes into a full queue, never runs out of fuel. The work-conservation clause (Pending => saturated or upstream ended/pending) is checked by the extracted monitor on implementation traces, not yet by a theorem.",
             "DESIGN.md 6 (C09)", "partial: work conservation is monitor-only."),
    "C11": T("Theorems: MergeBounded returns None iff no source is left, Pending / an item only while one is left, removes an ended source in the call that observed its end, its retry loop never runs out of fuel; MergeUnbounded returns None iff no live source in any group and Pending only while one is live (the end-of-loop check of the fix). The multiset-union / per-source-order clause is by construction of the model (an item is returned by the call that produced it) and checked by the monitor on implementation traces.",
             "DESIGN.md 6 (C11)", "partial: union/order clause is monitor + correspondence."),
    "C12": T("Theorems: in every reachable state child polls + queued entries <= enqueues <= accepted pushes + child-waker invocations + merge items (so total child polls <= pushes + wakes + items over any history); a slot is queued at most once and a wake of a queued slot changes nothing; every child poll of the drain loop is paid for by a dequeued entry.",
             "DESIGN.md 6 (C12)"),
    "C13": T("Theorems: one call of the bounded core polls at most B children (B calibrated, proved for every B >= 1); a call that stops early has woken its task; the group loop terminates, accounts for every group and (with the cursor fix) moves on after every yield. The starvation bound (b: polled within O(held) collection polls) is checked by the extracted monitor on implementation traces, not yet by a theorem.",
             "DESIGN.md 6 (C13)", "partial: clause (b) is monitor-only."),
    "C15": T("Theorems: every constructor succeeds for every capacity (0 included); the slot map refuses an insert iff it is full and its unreachable arm is never taken; a bounded push is accepted iff fewer than n are held, adds exactly one, leaves the capacity unchanged, and on refusal changes nothing at all (position counters of the ordered queue included); in every reachable state len = number of held futures <= capacity, and FuturesUnordered's counter equals the number held in all groups.",
             "DESIGN.md 6 (C15)"),
    "C16": T("Theorem: in every reachable state of every buffered_ordered / try_buffered_ordered history running + parked <= n (after the fix: commit ecb930c); one adapter poll keeps the bound whatever upstream and futures do.",
             "DESIGN.md 6 (C16)"),
    "C18": T("Theorems: for FUB, MergeBounded, buffered_unordered / try_buffered_unordered, for_each_concurrent, join_all / try_join_all every operation after construction leaves the per-operation allocation counter of the model at 0, for every history. That a Rust expression allocates is observed (counting allocator in the harness, impl <= model per operation), not derived; the logarithmic bound for the unbounded collections is checked by the extracted monitor only.",
             "DESIGN.md 6 (C18)", "partial: allocation is an annotation of the model tied by observation; unbounded bound is monitor-only."),
}
