#!/bin/sh
# MANIFEST.setup_cmd: build the whole framework from files on disk, offline.
set -e
cd "$(dirname "$0")"
export CARGO_NET_OFFLINE=true
mkdir -p work evidence replays ocaml/gen coq/generated
[ -f harness/Cargo.lock ] || cp /repo/Cargo.lock harness/Cargo.lock
# 1. harness once (so that calibration can run), 2. generated Coq files, 3. Coq, 4. driver
( cd coq && coq_makefile -f _CoqProject -o Makefile >/dev/null 2>&1 )
python3 tools/build.py
